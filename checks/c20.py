"""C20 unadf never writes outside its extraction directory.
Images whose entry names are arbitrary byte strings are written by the independent image writer (checks/mkimage.py); the
real unadf binary (built from /repo's examples/unadf.c) extracts them in a scratch tree, with and without -d, whole tree and
single path; everything outside the extraction directory (paths, sizes, mtimes, contents of sentinel files and of the
parent directories) is snapshotted before and after.  The model side is Model/Unadf.v: the path-construction function and
the containment theorem (Props/Properties_C20.v)."""
import os, subprocess, hashlib, shutil
from . import common, gen, mkimage
from .common import hexs

HOSTILE = [b"..", b"../evil", b"../../evil2", b"a/../../b", b"/abs_evil", b"//abs2", b"..\\evil3", b"...", b"..a", b"a..", b" ..", b"x/..", b"x/../..", b"./../e4",
           b"normal", b"..../e5", b"\\..\\e6", b"../", b"/", b"..//..//e7", b"a/b/../../../e8", b".", b"..\xff", b"\xff..", b"..\x01"]


def snapshot(root, skip):
    out = {}
    for d, dirs, files in os.walk(root):
        if os.path.abspath(d).startswith(os.path.abspath(skip) + os.sep) or os.path.abspath(d) == os.path.abspath(skip):
            dirs[:] = []
            continue
        st = os.lstat(d)
        out[d] = ("dir", st.st_mode, st.st_mtime_ns if os.path.abspath(d) != os.path.abspath(root) and os.path.abspath(skip) != os.path.join(os.path.abspath(d), os.path.basename(skip)) else 0)
        for f in files:
            p = os.path.join(d, f)
            st = os.lstat(p)
            try:
                h = hashlib.sha1(open(p, "rb").read()).hexdigest()
            except OSError:
                h = "?"
            out[p] = ("file", st.st_mode, st.st_size, st.st_mtime_ns, h)
    return out


def model_correspondence(ctx):
    """Model/Unadf.v output_name (extracted) vs the compiled output_name of examples/unadf.c, and the lexical oracle on the C result"""
    rng = ctx.rng
    cases = []
    parts = HOSTILE + [b"", b"dir", b"a/b", b"x"]
    for _ in range(400 if ctx.tier == "quick" else 20000):
        d = rng.choice([None, None, b"out", b"/tmp/x", b"a/b", b"out/", b"./out/", b"/tmp/x/", b"a//", b"/", b"."])
        pa = rng.choice(parts + [bytes(rng.choice(b"./\\ab") for _ in range(rng.randint(0, 10)))])
        nm = rng.choice(parts[:-4] + [bytes(rng.choice(b"./\\ab") for _ in range(rng.randint(1, 10)))])
        if not nm:
            nm = b"n"
        cases.append("output_name %s %s %s" % (hexs(d) if d else "-", hexs(pa), hexs(nm)))
    text = "\n".join(cases) + "\n"
    _, cout, _ = common.run_lines(ctx.bin("leafh"), text)
    _, mout, _ = common.run_lines(ctx.ocaml("leafm"), text)
    cl, ml = cout.splitlines(), mout.splitlines()
    if len(cl) != len(cases):
        ctx.fail("crash", "output_name driver died", {"after": len(cl)}, actual=cl[-1:] )
    for a, b in zip(cl, ml):
        ctx.count(a.split(" = ")[0])
        ctx.bump("output_name")
        lhs, _, rhs = a.partition(" = ")
        t = lhs.split()
        d = bytes.fromhex(t[1]) if t[1] != "-" else None
        out = bytes.fromhex(rhs.strip()) if rhs.strip() != "-" else b""
        # lexical containment: the result extends the extraction directory by a separator and a path that never climbs above its start
        rel = out[len(d):] if d else out
        bad = (d is not None and not out.startswith(d)) or (d is not None and not d.endswith(b"/") and not rel.startswith(b"/")) or (d is None and rel.startswith(b"/"))
        depth = 0
        for c in rel.split(b"/"):
            if c == b"..":
                depth -= 1
                if depth < 0:
                    bad = True
            elif c not in (b"", b"."):
                depth += 1
        if bad:
            ctx.fail("oracle", "output_name builds a path that leaves the extraction directory", {"call": lhs}, expected="a relative path that never climbs above its start", actual=out.decode("latin-1"))
        elif a != b:
            ctx.fail("corr", "Model/Unadf.v and the compiled output_name disagree", lhs, expected=b.partition(" = ")[2], actual=rhs, stream="output_name")
            break


def run(ctx):
    proof = common.proof_status(ctx)
    rng = ctx.rng
    model_correspondence(ctx)
    unadf = ctx.bin("unadf")
    ncase = 40 if ctx.tier == "quick" else 600
    for ci in range(ncase):
        flav = rng.choice([0, 1, 3])
        names = rng.sample(HOSTILE, rng.randint(2, 5))
        for _ in range(rng.randint(0, 2)):
            names.append(bytes(rng.choice(b"./\\ax.") for _ in range(rng.randint(1, 12))))
        names = [n_[:30] for n_ in names if n_]
        tree = {}
        used = set()
        for n_ in names:
            f = gen.fold(flav, n_)
            if f in used:
                continue
            used.add(f)
            if rng.random() < 0.4:
                sub = {}
                for m_ in rng.sample(HOSTILE, 2):
                    sub[m_[:30]] = [b"inner " + m_, 0, b""]
                if rng.random() < 0.5:
                    sub[b".."] = {b"..": {b"deep.txt": [b"deep", 0, b""]}, b"victim.txt": [b"OVERWRITTEN", 0, b""], b"sentinel.txt": [b"OVERWRITTEN", 0, b""]}
                tree[n_] = sub
            else:
                tree[n_] = [b"content of " + n_, 0, b""]
        im = mkimage.Image(1760, flav, rng, policy="random", garbage=False)
        try:
            data = im.build(tree)
        except Exception:
            continue
        top = os.path.join(ctx.work, "c20_%d" % ci)
        os.makedirs(os.path.join(top, "parent", "work", "out"))
        img = os.path.join(top, "image.adf")
        open(img, "wb").write(data)
        for s_ in ("parent/sentinel.txt", "parent/work/sentinel2.txt", "sentinel0.txt"):
            open(os.path.join(top, s_), "w").write("sentinel " + s_)
        os.utime(os.path.join(top, "parent"), (1_000_000_000, 1_000_000_000))
        mode = rng.choice(["tree", "tree-d", "single", "single-d"])
        cwd = os.path.join(top, "parent", "work", "out") if not mode.endswith("-d") else os.path.join(top, "parent", "work")
        outdir = os.path.join(top, "parent", "work", "out")
        args = [unadf]
        # option combinations change which sanitising path runs: Windows name mangling (-w), directory cache listing (-c)
        opts = rng.choice([[], [], ["-w"], ["-w"], ["-c"], ["-w", "-c"]])
        args += opts
        if mode.endswith("-d"):
            # every spelling of the same directory: plain, trailing separator(s), ./ prefix, absolute
            dform = rng.choice(["out", "out", "out/", "out/", "./out", "./out/", "out//", outdir, outdir + "/"])
            args += ["-d", dform]
        args.append(img)
        if mode.startswith("single"):
            n_ = rng.choice(names)
            args.append(n_.decode("latin-1"))
        # entries of the working directory that carry the same names as entries of the image (a path built from the raw name instead
        # of the sanitised output name lands on them when -d is used): a file and a directory, with distinctive modes
        plain = [n_ for n_ in tree if n_ not in (b".", b"..") and b"/" not in n_ and b"\\" not in n_ and all(32 < c < 127 for c in n_)]
        for k_, n_ in enumerate(plain[:2]):
            twin = os.path.join(cwd, n_.decode("latin-1"))
            if os.path.abspath(twin) == os.path.abspath(outdir) or os.path.exists(twin):
                continue
            if k_ == 0:
                os.mkdir(twin); os.chmod(twin, 0o751)
            else:
                open(twin, "w").write("twin of an image entry"); os.chmod(twin, 0o640)
        before = snapshot(top, outdir)
        abs_before = {p: os.path.exists(p) for p in ("/abs_evil", "/abs2")}
        try:
            r = subprocess.run(args, cwd=cwd, stdout=subprocess.PIPE, stderr=subprocess.PIPE, timeout=60)
            rc = r.returncode
        except subprocess.TimeoutExpired:
            rc = 124
        after = snapshot(top, outdir)
        ctx.count((ci, mode, tuple(names)))
        ctx.bump("mode:" + mode + ("+" + "".join(o[1] for o in opts) if opts else ""))
        if mode.endswith("-d"):
            ctx.bump("dform:" + ("absolute" if dform.startswith("/") else "relative") + (" trailing /" if dform.endswith("/") else ""))
        inp = {"mode": mode, "options": opts, "names": [hexs(n_) for n_ in names], "flavour": flav, "argv": args[1:]}
        if rc not in (0, 1):
            ctx.fail("crash", "unadf exit %d" % rc, inp, actual=r.stderr[-300:].decode("latin-1") if rc != 124 else "timeout")
        changed = [p for p in set(before) | set(after) if before.get(p) != after.get(p)]
        for p in ("/abs_evil", "/abs2"):
            if os.path.exists(p) and not abs_before[p]:
                changed.append(p)
                try:
                    os.unlink(p) if os.path.isfile(p) else shutil.rmtree(p)
                except OSError:
                    pass
        if changed:
            ctx.fail("oracle", "unadf created or modified something outside the extraction directory", inp, expected="no change outside %s" % os.path.relpath(outdir, top),
                     actual=[os.path.relpath(p, top) if p.startswith(top) else p for p in sorted(changed)][:6])
        shutil.rmtree(top, ignore_errors=True)
        if len(ctx.samples) < 3:
            ctx.sample(inp)
        if len(ctx.failures) > 5:
            break
    rule = ("images with 2..7 entries named from a hostile list ('..', '../x', 'a/../../b', '/abs', backslash forms, dots, 0xFF) and random strings over './\\\\ax', some as "
            "directories containing further hostile names (also nested '..' directories); extraction of the whole tree and of single paths, with and without -d, with and without -w / -c; the tree around the extraction directory "
            "(sentinel files, directory mtimes) compared before/after; distinct = (names, mode)")
    return common.finish(ctx, proof, rule, level="exploration",
                         assumptions=["no symbolic links pre-exist inside the extraction directory; the kernel resolves paths lexically otherwise",
                                      "the Coq model of output_name covers the default mode; the -w (Windows mangling) route is exercised by the sandboxed runs only"])


def replay(ctx, rep):
    print(rep.get("failure"))
    return 0

"""C18 Bystander integrity at every interruption point.
The ordered device-write log of every operation of generated histories (several files open, freed blocks being reused, all
flavours) is replayed write by write on a copy of the image.  Each write must land on a block that was free (owned by
nobody) before the operation, or that belongs to the object operated on, to the metadata of its directories (directory
block, cache blocks, root, bitmap), or on a sibling entry whose hash-chain link (and checksum) alone changes - so every
prefix of the sequence leaves the header, extension and data blocks of every other file byte-identical.  Within a bitmap
update the root's bitmap-valid flag must be cleared before the first page write and set after the last."""
import os, struct
from . import common, gen, hist
from .common import hexs
from .mkimage import get32


def s32(b, off):
    return struct.unpack_from(">i", b, off)[0]


class Owners(dict):
    """block -> first claimant; `shared[block]` = further claimants (a block reached from two entries: the state a wrongly accepted
    undelete leaves behind - every claimant other than the object operated on is a bystander)"""
    def __init__(self):
        super().__init__()
        self.shared = {}

    def claim(self, q, role):
        if q in self:
            if self[q] != role:
                self.shared.setdefault(q, []).append(role)
        else:
            self[q] = role

    def roles(self, q):
        r = self.get(q)
        return ([r] if r else []) + self.shared.get(q, [])


def owners(img, n, flav, lagging=()):
    """tolerant walk: block -> (role, path) ; role in root, bitmap, dir, cache, hdr, ext, data.
       `lagging`: folded paths of files open for writing - their on-disk block lists may be stale, only their header is attributed"""
    own = Owners()
    root = n // 2
    bs = 512 if flav & 1 else 488

    def blk(k):
        return img[k * 512:(k + 1) * 512]
    own[root] = ("root", ())
    rb = blk(root)
    for i in range(25):
        p = s32(rb, 316 + 4 * i)
        if 2 <= p < n:
            own[p] = ("bitmap", ())
    e = s32(rb, 416)
    steps = 0
    while 2 <= e < n and steps < 64:
        own[e] = ("bitmap", ())
        eb = blk(e)
        for i in range(127):
            p = s32(eb, 4 * i)
            if 2 <= p < n:
                own[p] = ("bitmap", ())
        e = s32(eb, 508)
        steps += 1

    def cache_chain(c, path):
        steps = 0
        while 2 <= c < n and steps < 64:
            own[c] = ("cache", path)
            c = s32(blk(c), 16)
            steps += 1

    def walk_dir(d, path, depth):
        if depth > 12:
            return
        b = blk(d)
        if flav & 4:
            cache_chain(s32(b, 504), path)
        for slot in range(72):
            e = s32(b, 24 + 4 * slot)
            steps = 0
            seen_here = set()
            while 2 <= e < n and steps < 200 and e not in seen_here and not (e in own and own[e][0] in ("dir", "hdr", "root", "bitmap", "cache")):
                seen_here.add(e)
                eb = blk(e)
                nl = min(eb[432], 30)
                name = bytes(eb[433:433 + nl])
                st = s32(eb, 508)
                p = path + (name,)
                if st == 2:
                    own.claim(e, ("dir", p))
                    walk_dir(e, p, depth + 1)
                elif st == -3 and tuple(gen.fold(flav, c) for c in p) in lagging:
                    own.claim(e, ("hdr", p))
                elif st == -3:
                    own.claim(e, ("hdr", p))
                    size = get32(eb, 324)
                    d_ = (size + bs - 1) // bs
                    for i in range(min(d_, 72)):
                        q = s32(eb, 24 + 4 * (71 - i))
                        if 2 <= q < n:
                            own.claim(q, ("data", p))
                    x = s32(eb, 504)
                    left = d_ - 72
                    st2 = 0
                    while 2 <= x < n and st2 < 400 and left > 0:
                        own.claim(x, ("ext", p))
                        xb = blk(x)
                        for i in range(min(left, 72)):
                            q = s32(xb, 24 + 4 * (71 - i))
                            if 2 <= q < n:
                                own.claim(q, ("data", p))
                        left -= 72
                        x = s32(xb, 504)
                        st2 += 1
                else:
                    own.claim(e, ("hdr", p))
                e = s32(eb, 496)
                steps += 1
    walk_dir(root, (), 0)
    return own


def only_link_changed(old, new):
    diff = [i for i in range(512) if old[i] != new[i]]
    return all(496 <= i < 500 or 20 <= i < 24 for i in diff)


def parse_wlog(path):
    """-> list of segments [(mark, [(block, bytes)])]"""
    segs = []
    cur = None
    for line in open(path):
        t = line.split()
        if not t:
            continue
        if t[0] == "M":
            cur = (t[1], [])
            segs.append(cur)
        elif t[0] == "W" and cur is not None:
            data = bytes.fromhex(t[4]) if len(t) > 4 else b""
            cur[1].append((int(t[1]), int(t[2]), data))
    return segs


def build(ctx, kind="DD"):
    rng = ctx.rng
    flav = rng.choice(gen.FLAVOURS)
    h = gen.Hist(rng, flav, big=rng.random() < 0.4, max_handles=4)
    L = gen.dev_create(kind, flav) + ["mountdev 0", "mount 0 0"]
    # some initial content, closed
    for i in range(3):
        nm = b"init%d" % i
        L += ["open 0 - %s w" % hexs(nm), "write 0 %d %d" % (i + 5, rng.choice([100, 3000, 40000])), "close 0"]
        h.dirs[()][gen.fold(flav, nm)] = (nm, "file")
    L += ["dump $W/start", "wlog $W/wlog full"]
    ops = []
    for i in range(40 if ctx.tier == "quick" else 80):
        for cmd in h.step():
            L.append("wmark %d" % len(ops))
            L.append(cmd)
            ops.append(cmd)
    for cmd in h.close_all():
        L.append("wmark %d" % len(ops))
        L.append(cmd)
        ops.append(cmd)
    L += ["wlog off", "umount", "umountdev"]
    return L, ops, flav


def build_reuse(ctx, idx=None):
    """release blocks through a handle that stays open, let another file take them, then flush/close the first handle"""
    rng = ctx.rng
    flav = rng.choice(gen.FLAVOURS)
    bs = 512 if flav & 1 else 488
    combos = [(k_, t_) for k_ in (100, 150, 73, 72, 10) for t_ in (0, 1, 1 * 1000, 5 * 1000, 72 * 1000, 73 * 1000, 72 * 1000 + 1)]
    if idx is not None and idx < len(combos):
        k, t = combos[idx]
        t = t // 1000 * bs + t % 1000 if t >= 1000 else t
        close_b = True
    else:
        k = rng.choice([10, 72, 73, 100, 150])
        t = rng.choice([0, 1, bs, 5 * bs, 72 * bs, 73 * bs, 72 * bs + 1])
        close_b = rng.random() < 0.5
    t = min(t, k * bs)
    A, B, C = hexs(b"victimA"), hexs(b"reuserB"), hexs(b"other")
    L = gen.dev_create("DD", flav) + ["mountdev 0", "mount 0 0",
        "open 0 - %s w" % C, "write 0 3 %d" % (5 * bs), "close 0",
        "open 0 - %s w" % A, "write 0 4 %d" % (k * bs - rng.choice([0, 1, 100])), "close 0",
        "dump $W/start", "wlog $W/wlog full"]
    ops = []
    seq = ["open 1 - %s rw" % A]
    if idx is not None and idx < len(combos):
        seq.append("seek 1 %d" % ((k - 1) * bs))          # the handle has buffered its last data block and extension block
    elif rng.random() < 0.5:
        seq.append("seek 1 %d" % rng.choice([0, (k - 1) * bs, 75 * bs if k > 75 else 3 * bs]))
    seq += ["trunc 1 %d" % t, "open 2 - %s w" % B, "write 2 9 %d" % ((k + 3) * bs), "close 2" if close_b else "flush 2"]
    if rng.random() < 0.5:
        seq.append("write 1 6 %d" % rng.choice([5, bs, 2 * bs]))
    seq += [rng.choice(["flush 1", "close 1"]), "mkdir - %s" % hexs(b"dd"), "rm - %s" % C]
    for cmd in seq:
        L.append("wmark %d" % len(ops))
        L.append(cmd)
        ops.append(cmd)
    L += ["wlog off", "umount", "umountdev"]
    return L, ops, flav


def build_cache(ctx):
    """directory-cache volumes: a directory whose cache spans several blocks loses and gains records (cache blocks are released and
    allocated) while bystander files are created, grown and deleted next to it"""
    rng = ctx.rng
    flav = rng.choice([4, 5])
    bs = 512 if flav & 1 else 488
    W = hexs(b"work")
    L = gen.dev_create("DD", flav) + ["mountdev 0", "mount 0 0", "mkdir - %s" % W,
        "open 0 - %s w" % hexs(b"bystander"), "write 0 3 %d" % (5 * bs), "close 0"]
    exact = rng.random() < 0.5
    n = rng.choice([13, 25, 37]) if exact else rng.choice([13, 14, 15, 16, 25, 26, 27, 37])
    # 14-byte names: 40-byte records, 12 per cache block: with 13 / 25 / 37 entries the last cache block holds a single record
    names = [(b"entry_%02d_" % i + b"abcdefghijklmnopqrstuvwxyz")[:14 if exact else rng.choice([14, 14, 22, 30])] for i in range(n)]
    for nm in names:
        L += ["mkdir %s %s" % (W, hexs(nm))] if rng.random() < 0.5 else ["open 0 %s %s w" % (W, hexs(nm)), "close 0"]
    L += ["dump $W/start", "wlog $W/wlog full"]
    ops = []
    seq = []
    alive = list(names)
    if exact:
        # the entry that is alone in the last cache block goes; then a bystander is created; then the cache of the directory changes again
        seq += ["rm %s %s" % (W, hexs(alive.pop(-1))), "open 1 - %s w" % hexs(b"victim"), "write 1 7 %d" % rng.choice([0, 10, 3 * bs]), "close 1",
                "mkdir %s %s" % (W, hexs(b"another_entry_"))]
        alive.append(b"another_entry_")
    for step in range(rng.randint(2, 10)):
        r = rng.random()
        if r < 0.4 and alive:
            nm = alive.pop(rng.choice([-1, -1, 0, rng.randrange(len(alive))]))
            seq.append("rm %s %s" % (W, hexs(nm)))
        elif r < 0.6:
            v = b"victim%d" % step
            seq += ["open 1 - %s w" % hexs(v), "write 1 7 %d" % rng.choice([0, 10, 3 * bs]), "close 1"]
        elif r < 0.8:
            nm = b"another_%02d_with_a_long_name" % step
            seq.append("mkdir %s %s" % (W, hexs(nm)))
            alive.append(nm)
        elif alive:
            nm = rng.choice(alive)
            seq.append(rng.choice(["comment %s %s %s" % (W, hexs(nm), hexs(b"c" * rng.choice([1, 40, 79]))),
                                   "mv %s %s - %s" % (W, hexs(nm), hexs(b"moved%d" % step))]))
            if seq[-1].startswith("mv"):
                alive.remove(nm)
    for cmd in seq:
        L.append("wmark %d" % len(ops))
        L.append(cmd)
        ops.append(cmd)
    L += ["wlog off", "umount", "umountdev"]
    return L, ops, flav


def build_undel(ctx, kind=None, flav=None):
    """undelete scenarios (checks/undel.py): the blocks of the deleted entry still free or taken meanwhile by a bystander (the
    extension block below the header, in a hole a new file takes first); then calls on the undeleted entry and new files"""
    from . import undel
    rng = ctx.rng
    flav = rng.choice(gen.FLAVOURS) if flav is None else flav
    setup, seq, meta = undel.scenario(rng, flav, kind)
    L = gen.dev_create("DD", flav) + ["mountdev 0", "mount 0 0"] + setup + ["dump $W/start", "wlog $W/wlog full"]
    ops = []
    for cmd in seq:
        L.append("wmark %d" % len(ops))
        L.append(cmd)
        ops.append(cmd)
    L += ["wlog off", "umount", "umountdev"]
    return L, ops, flav


def run(ctx):
    proof = common.proof_status(ctx)
    nu = 24 if ctx.tier == "quick" else 400
    nh = 10 if ctx.tier == "quick" else 300
    nr = 20 if ctx.tier == "quick" else 400
    nc = 20 if ctx.tier == "quick" else 400
    nm = 6 if ctx.tier == "quick" else 100      # volumes with three bitmap pages: most updates dirty one page, not the last
    for hi in range(nh + nr + nc + nm + nu):
        if hi >= nh + nr + nc + nm:
            # every scenario kind on a directory-cache flavour and on one without, then random ones (a sampled kind is a detection that
            # comes and goes with the random stream)
            ui = hi - (nh + nr + nc + nm)
            from . import undel as _u
            if ui < 2 * len(_u.KINDS):
                L, ops, flav = build_undel(ctx, _u.KINDS[ui // 2], ctx.rng.choice([4, 5]) if ui % 2 else ctx.rng.choice([0, 1, 2, 3]))
            else:
                L, ops, flav = build_undel(ctx)
        elif hi >= nh + nr + nc:
            L, ops, flav = build(ctx, kind="HF:12200")
        else:
            L, ops, flav = build(ctx) if hi < nh else (build_reuse(ctx, hi - nh) if hi < nh + nr else build_cache(ctx))
        rc, out, err, wd = common.run_script(ctx, "\n".join(L) + "\n", timeout=300)
        ctx.count(("hist", hi, hash(tuple(L))))
        ctx.bump("history")
        if rc != 0:
            ctx.fail("crash", "harness exit %d" % rc, {"script": L}, actual=(out[-2:], err[-200:]))
            continue
        img = bytearray(open(os.path.join(wd, "start"), "rb").read())
        n = len(img) // 512
        segs = parse_wlog(os.path.join(wd, "wlog"))
        handles = {}
        wopen = {}
        root = n // 2
        res = common.parse_results(out)
        # line number of each op in L (after its wmark)
        opline = {}
        k = 0
        for li, cmd in enumerate(L, 1):
            if cmd.startswith("wmark "):
                opline[int(cmd.split()[1])] = li + 1
        for (mark, writes) in segs:
            oi = int(mark)
            cmd = ops[oi]
            t = cmd.split()
            ok = (res.get(opline[oi]) or ["?"])[-1].startswith("ok")
            # object(s) operated on
            closing = None
            objs = []          # list of paths (tuples of bytes)
            dirs = []          # directories whose metadata may change
            def P(s):
                return tuple(bytes.fromhex(c) for c in s.split("/")) if s != "-" else ()
            if t[0] == "open":
                p = P(t[2]) + (bytes.fromhex(t[3])[:30],)
                if ok:
                    handles[t[1]] = p
                    if "w" in t[4]:
                        wopen[t[1]] = p
                objs.append(p)
            elif t[0] in ("write", "read", "seek", "trunc", "flush", "close", "stat"):
                if t[1] in handles:
                    objs.append(handles[t[1]])
                if t[0] == "close":
                    handles.pop(t[1], None)
                    closing = wopen.pop(t[1], None)
            elif t[0] in ("mkdir", "rm", "comment", "prot", "lookup"):
                objs.append(P(t[1]) + (bytes.fromhex(t[2])[:30],))
            elif t[0] == "undel" and len(t) > 3:
                objs.append(P(t[1]) + (bytes.fromhex(t[3])[:30],))
            elif t[0] == "mv":
                objs.append(P(t[1]) + (bytes.fromhex(t[2])[:30],))
                objs.append(P(t[3]) + (bytes.fromhex(t[4])[:30],))
            if not writes:
                continue
            fold = lambda p: tuple(gen.fold(flav, c) for c in p)
            own = owners(bytes(img), n, flav, lagging=set(fold(o) for o in wopen.values()) | ({fold(closing)} if t[0] == "close" and closing else set()))
            fobjs = [fold(o) for o in objs]
            # a file that is open for writing is not a bystander: its on-disk blocks may lag behind the handle
            # (e.g. blocks it released by truncation are free in the bitmap while its unflushed header still lists them)
            fobjs += [fold(o) for o in wopen.values()]
            anc = set()
            for o in fobjs:
                for j in range(len(o)):
                    anc.add(o[:j])
            ctx.evaluations += len(writes)
            ctx.bump("op:" + t[0])
            ctx.bump("writes", len(writes))
            flag = None
            for wi, (b, size, data) in enumerate(writes):
                for part in range(size // 512):
                    bb = b + part
                    new = data[part * 512:(part + 1) * 512]
                    old = bytes(img[bb * 512:(bb + 1) * 512])
                    verdict = None
                    role = None
                    if bb == root:
                        flag = s32(new, 312)
                    for role in (own.roles(bb) if bb >= 2 else []):
                        kind, path = role
                        fp = fold(path)
                        if kind in ("root", "bitmap"):
                            if kind == "bitmap" and flag != 0:
                                verdict = "a bitmap page is rewritten while the root's bitmap-valid flag is not cleared (flag=%s)" % flag
                        elif kind in ("dir", "cache"):
                            if fp in anc or fp in fobjs:
                                pass
                            elif kind == "dir" and fp[:-1] in [o[:-1] for o in fobjs] and only_link_changed(old, new):
                                pass
                            else:
                                verdict = "write to the %s block of directory %s, which is neither the object nor one of its parents" % (kind, "/".join(hexs(c) for c in path))
                        else:   # hdr / ext / data of a file
                            if fp in fobjs:
                                pass
                            elif kind == "hdr" and fp[:-1] in [o[:-1] for o in fobjs] and only_link_changed(old, new):
                                pass
                            elif old == new:
                                pass
                            else:
                                verdict = "write changes the %s block of another file (%s)" % ({"hdr": "header", "ext": "extension", "data": "data"}[kind], "/".join(hexs(c) for c in path))
                        if verdict:
                            break
                    if verdict:
                        ctx.fail("oracle", verdict, {"flavour": flav, "operation": cmd, "operated_on": ["/".join(hexs(c) for c in o) for o in objs], "write_index": wi, "block": bb,
                                                     "script": L[: opline[oi]]}, expected="free block, own block, parent metadata, or sibling link", actual={"block": bb, "owner": [role[0], "/".join(hexs(c) for c in role[1])]})
                    img[bb * 512:(bb + 1) * 512] = new
            # after an operation that updated the bitmap the flag must be valid again
            if flag is not None and flag != -1 and any(own.get(b)[0] == "bitmap" for (b, s_, d_) in writes if own.get(b)):
                ctx.fail("oracle", "bitmap update finished with the bitmap-valid flag cleared", {"flavour": flav, "operation": cmd, "script": L[: opline[oi]]}, expected=-1, actual=flag)
            if len(ctx.failures) > 5:
                break
        if len(ctx.samples) < 2:
            ctx.sample({"flavour": flav, "ops": ops[:10], "segments": len(segs)})
        if len(ctx.failures) > 5:
            break
    # the tie of the handle frame theorems (Props/Properties_C18.v H.C18_handle_*) to adf_file.c: call-level correspondence of Model/FileIO
    # with the library, plus: every device write of a handle call outside the model's universe is root / bitmap / directory cache
    from . import fileiocorr
    fileiocorr.run(ctx, 30 if ctx.tier == "quick" else 1000)
    # ... and of the directory frame theorems (C18_dir_create_frame / C18_dir_remove_frame over Model/Chain.v): raw hash tables and chains after every call
    from . import chaincorr
    chaincorr.run(ctx, 10 if ctx.tier == "quick" else 300)
    rule = ("random interleavings over up to 4 handles and 13 names with deletes (freed blocks get reused) on all six flavours; every device write of every operation is "
            "classified against the ownership map of the image as it was just before that write sequence started, replayed write by write (= every prefix); bitmap flag "
            "order checked inside each sequence; evaluations = device writes classified; distinct = distinct history")
    return common.finish(ctx, proof, rule, level="exploration",
                         assumptions=["ownership is computed by a tolerant walk of the on-disk structures (files open for writing may be ahead of the disk)",
                                      "one writer per file; entries with open handles are not deleted or renamed"])


def replay(ctx, rep):
    print(rep.get("failure"))
    return 0

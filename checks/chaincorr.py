"""Block-level correspondence for the directory model Model/Chain.v (theorems: Proofs/ChainP.v, C02_directory_refines_map,
C15_found_iff_same_key): after every create / delete / rename / move in two directories the hash table and every
nextSameHash chain of the image (read raw, block by block) must equal the model's state after the same call, given the
block the allocator chose.  A rename or move is an unlink in the source directory followed by an insert of the same block
under the new name in the destination (what adfRenameEntry does)."""
import subprocess
from . import common, gen
from .common import hexs

DIRS = ["-", hexs(b"sub")]


def history(ctx):
    rng = ctx.rng
    flav = rng.choice(gen.FLAVOURS)
    intl = bool(flav & 2) or bool(flav & 4)
    L = gen.dev_create("DD", flav) + ["mountdev 0", "mount 0 0", "mkdir - %s" % DIRS[1], "lookup - %s" % DIRS[1]]
    sub_lookup = len(L)
    # names: two groups that collide in one slot each, case variants, Latin-1 variants, names longer than 30 bytes
    # one group shares the slot of the directory "sub" itself (entries chained right behind the directory they are moved into)
    s1 = gen.py_hash(flav, b"sub")
    s2 = rng.choice([i for i in range(72) if i != s1])
    pool = gen.colliding_names(rng, flav, s1, 5) + gen.colliding_names(rng, flav, s2, 3)
    pool += [p.swapcase() for p in pool[:3]]
    # pairs in one slot where one name is a proper prefix of the other (comparison over the wrong length confuses them)
    for _ in range(2):
        base_ = bytes(rng.choice(b"abcdefghijklmnopqrstuvwxyz") for _ in range(rng.randint(3, 8)))
        hb = gen.py_hash(flav, base_)
        ext_ = [base_ + bytes([c1]) + (bytes([c2]) if c2 else b"") for c1 in b"0123456789abcdefghijklmnopqrstuvwxyz_." for c2 in [0] + list(b"abcdefgh1234")]
        ext_ = [e for e in ext_ if gen.py_hash(flav, e) == hb]
        if ext_:
            q_ = rng.choice(ext_)
            pool += [base_, q_, base_, q_, q_.upper()]
    pool += [b"caf\xe9", b"CAF\xc9", b"\xe0\xfe", b"\xc0\xde", b"\xf7x", b"\xd7X", b"\xffy", b"\xdfY",
             b"a_name_that_is_longer_than_thirty_bytes", b"A_NAME_THAT_IS_LONGER_THAN_THIRTY_chars", b"a_name_that_is_longer_than_thi"]
    present = [{}, {}]
    ops = []        # dicts: kind, line numbers of the op / the lookup giving the block / the two state dumps, model inputs
    for _ in range(rng.randint(25, 60)):
        x = rng.choice([0, 0, 1])
        D = DIRS[x]
        nm = rng.choice(pool)
        k = gen.fold(flav, nm[:30])
        r = rng.random()
        op = {"dir": x}
        if r < 0.45:
            if k not in present[x] and rng.random() < 0.4:
                L += ["open 7 %s %s w" % (D, hexs(nm)), "close 7"]
                op["opl"] = len(L) - 1
            else:
                L += ["mkdir %s %s" % (D, hexs(nm))]
                op["opl"] = len(L)
            L += ["lookup %s %s" % (D, hexs(nm))]
            op.update(kind="ins", name=nm, lkl=len(L))
            present[x].setdefault(k, nm)
        elif r < 0.75:
            if present[x] and rng.random() < 0.7:
                nm = rng.choice(sorted(present[x].values()))
                if rng.random() < 0.3:
                    nm = nm.swapcase() if nm.isascii() else nm
                k = gen.fold(flav, nm[:30])
            L += ["rm %s %s" % (D, hexs(nm))]
            op.update(kind="del", name=nm, opl=len(L))
            if x == 0 and k == gen.fold(flav, b"sub"):
                pass
            present[x].pop(k, None)
        else:
            # rename inside the directory or move to the other one
            if present[x] and rng.random() < 0.8:
                nm = rng.choice(sorted(present[x].values()))
                k = gen.fold(flav, nm[:30])
            y = x if rng.random() < 0.6 else 1 - x
            new = rng.choice(pool)
            if rng.random() < 0.2:
                new = nm.swapcase() if nm.isascii() else new
            kn = gen.fold(flav, new[:30])
            L += ["lookup %s %s" % (D, hexs(nm)), "mv %s %s %s %s" % (D, hexs(nm), DIRS[y], hexs(new))]
            op.update(kind="mv", name=nm, new=new, to=y, lkl=len(L) - 1, opl=len(L))
            if k in present[x] and (kn not in present[y] or (x == y and kn == k)):
                present[x].pop(k)
                present[y][kn] = new
        L += ["dirchains %s" % DIRS[0], "dirchains %s" % DIRS[1]]
        op["stl"] = (len(L) - 1, len(L))
        ops.append(op)
    L += ["list %s 0 0" % DIRS[0], "list %s 0 0" % DIRS[1], "umount", "umountdev"]
    return L, ops, intl, sub_lookup, {"flavour": flav, "slots": [s1, s2]}


def run(ctx, n):
    """n histories; disagreements are correspondence failures of the calling check"""
    for _ in range(n):
        L, ops, intl, sub_lookup, meta = history(ctx)
        rc, out, err, wd = common.run_script(ctx, "\n".join(L) + "\n")
        res = common.parse_results(out)
        ctx.bump("chain_histories")
        if rc != 0:
            ctx.fail("crash", "harness exit %d in a directory history" % rc, {"script": L, "meta": meta}, actual=out[-2:])
            continue

        def last(ln):
            return (res.get(ln) or ["?"])[-1]
        subblk = int(common.kv(last(sub_lookup))[1].get("sect", "0"))
        # model inputs per directory; the root starts with the entry of "sub"
        lines = [["ins %s %d" % (DIRS[1], subblk)], []]
        marks = []       # per op: number of model lines of each directory consumed after it
        for op in ops:
            ok = last(op["opl"]).startswith("ok")
            x = op["dir"]
            if op["kind"] == "ins":
                blk = int(common.kv(last(op["lkl"]))[1].get("sect", "1")) if ok else 1
                lines[x].append("ins %s %d" % (hexs(op["name"]), blk))
            elif op["kind"] == "del":
                lines[x].append("del %s" % hexs(op["name"]))
            elif ok and not (op["to"] == x and op["new"] == op["name"]):      # (renaming to the identical name is a no-op that reports success)
                blk = int(common.kv(last(op["lkl"]))[1].get("sect", "1"))
                lines[x].append("del %s" % hexs(op["name"]))
                lines[op["to"]].append("ins %s %d" % (hexs(op["new"]), blk))
            marks.append((len(lines[0]), len(lines[1])))
        # API level (C15: the name reported by a listing opens the entry, and so does every case variant of it)
        L2 = L[:-2]
        probes = []
        for x in (0, 1):
            for e in res.get(len(L) - 3 + x) or []:
                if e.startswith("E "):
                    d = common.kv(e)[1]
                    nm = bytes.fromhex(d["name"]) if d.get("name", "-") != "-" else b""
                    for variant in (nm, gen.fold(meta["flavour"], nm), nm.lower() if nm.isascii() else nm):
                        L2.append("lookup %s %s" % (DIRS[x], hexs(variant)))
                        probes.append((len(L2), x, nm, variant, d.get("sect")))
        L2 += ["umount", "umountdev"]
        if probes:
            rc2, out2, err2, wd2 = common.run_script(ctx, "\n".join(L2) + "\n")
            res2 = common.parse_results(out2)
            for (ln, x, nm, variant, sect) in probes:
                r2 = (res2.get(ln) or ["?"])[-1]
                ctx.bump("listed_name_lookups")
                if not r2.startswith("ok") or common.kv(r2)[1].get("sect") != sect:
                    ctx.fail("oracle", "a name reported by the listing (or a case variant of it) does not find the listed entry",
                             {"directory": "root" if x == 0 else "sub", "listed_name": hexs(nm), "looked_up": hexs(variant), "meta": meta, "script": L2[: ln]},
                             expected="ok sect=%s" % sect, actual=r2)
                    break
        mouts = []
        for x in (0, 1):
            p = subprocess.run([ctx.ocaml("adfm"), "chain", "1" if intl else "0"], input="\n".join(lines[x]) + "\n", stdout=subprocess.PIPE, text=True, preexec_fn=common.big_stack)
            mouts.append(p.stdout.splitlines())
        # C02: every entry the model holds at the end is reachable under its name in the implementation (at its block)
        L3 = L[:-4]
        probes3 = []
        for x in (0, 1):
            if mouts[x]:
                st = mouts[x][-1][2:].strip()
                for part in [q for q in st.split(";") if q]:
                    for ent in part.split("=", 1)[1].split(","):
                        blk, nmh = ent.split(":")
                        if nmh != "-":
                            L3.append("lookup %s %s" % (DIRS[x], nmh))
                            probes3.append((len(L3), x, nmh, blk))
        L3 += ["umount", "umountdev"]
        if probes3:
            rc3, out3, err3, wd3 = common.run_script(ctx, "\n".join(L3) + "\n")
            res3 = common.parse_results(out3)
            for (ln, x, nmh, blk) in probes3:
                r3 = (res3.get(ln) or ["?"])[-1]
                ctx.bump("model_entry_lookups")
                if not r3.startswith("ok") or common.kv(r3)[1].get("sect") != blk:
                    ctx.fail("oracle", "an entry that was created and never deleted or renamed is not reachable under its name",
                             {"directory": "root" if x == 0 else "sub", "name": nmh, "block": blk, "meta": meta, "script": L3[: ln]},
                             expected="ok sect=%s" % blk, actual=r3)
                    break
        for i, (op, mk) in enumerate(zip(ops, marks)):
            ok = last(op["opl"]).startswith("ok")
            ctx.count(("chain", meta["flavour"], op["kind"], hexs(op["name"]), i, hash(tuple(L))))
            ctx.bump("chain_op:" + op["kind"] + (":ok" if ok else ":refused"))
            bad = None
            for x in (0, 1):
                st = last(op["stl"][x])
                st = st[2:].strip() if st.startswith("S") else st
                ms = mouts[x][2 * mk[x] - 1][2:].strip() if mk[x] > 0 and 2 * mk[x] - 1 < len(mouts[x]) else ""
                if ms != st:
                    bad = ("hash table / chains of directory %s" % ("root" if x == 0 else "sub"), ms, st)
            # acceptance: the model lines this call contributed
            x = op["dir"]
            prev = marks[i - 1] if i else (1, 0)
            contributed = [(d, j) for d in (0, 1) for j in range(prev[d], mk[d])]
            macc = all(int(mouts[d][2 * j][2:]) != -1 for (d, j) in contributed if 2 * j < len(mouts[d]))
            if op["kind"] in ("ins", "del") and macc != ok:
                bad = ("acceptance of the call", macc, ok)
            if op["kind"] == "mv" and ok and not macc:
                bad = ("acceptance of the rename (unlink + insert of the same block)", macc, ok)
            if bad:
                ctx.fail("corr", "directory block structure differs from Model/Chain.v after a call: %s" % bad[0],
                         {"call": L[op["opl"] - 1], "call_index": i, "meta": meta, "script": L[: op["stl"][1]], "model_input_root": lines[0][: mk[0]], "model_input_sub": lines[1][: mk[1]]},
                         expected=bad[1], actual=bad[2])
                break

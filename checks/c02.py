"""C02 Namespace fidelity.
Generated call sequences over several directories with names chosen to collide in the 72-slot hash table (chains 1..6,
target at head/middle/tail), case variants, same- and cross-directory moves and every failing call kind; compared with the
extracted reference model (Spec/FsSpec.v); the image at each quiescent point is decoded by the extracted decoder and must
equal the model's tree (so a failing call that changed anything shows up)."""
from . import common, gen, hist, histcheck
from .common import hexs


def ns_history(ctx):
    rng = ctx.rng
    flav = rng.choice(gen.FLAVOURS)
    slot = rng.randrange(72)
    coll = gen.colliding_names(rng, flav, slot, 6)
    coll2 = gen.colliding_names(rng, flav, rng.randrange(72), 3)
    pool = coll + coll2 + [b"plain", b"Other"]
    dirs = [()]
    entries = {(): {}}           # path -> {folded: (name, kind)}
    L = gen.dev_create("DD", flav) + ["mountdev 0", "mount 0 0"]
    ps = lambda p: "/".join(hexs(c) for c in p) if p else "-"
    k = 0
    nops = 50 if ctx.tier == "quick" else 90
    for i in range(nops):
        p = rng.choice(dirs)
        d = entries[p]
        r = rng.random()
        nm = rng.choice(pool)
        if rng.random() < 0.25:
            nm = nm.swapcase()
        f = gen.fold(flav, nm)
        files = sorted(v[0] for v in d.values() if v[1] == "file")
        if files and rng.random() < 0.06:
            # a path that leads through a file (an empty file's block table looks like an empty hash table): every call must be refused
            bad = ps(p + (rng.choice(files),))
            L.append(rng.choice(["mkdir %s %s" % (bad, hexs(nm)), "open 0 %s %s w" % (bad, hexs(nm)), "lookup %s %s" % (bad, hexs(nm)), "list %s 0 0" % bad,
                                 "rm %s %s" % (bad, hexs(nm)), "mv %s %s %s %s" % (ps(p), hexs(rng.choice(files)), bad, hexs(nm))]))
            if L[-1].startswith("open"):
                L.append("close 0")
            continue
        if r < 0.22:
            L.append("mkdir %s %s" % (ps(p), hexs(nm)))
            if f not in d and len(p) < 3:
                d[f] = (nm, "dir"); entries[p + (nm,)] = {}; dirs.append(p + (nm,))
            elif f not in d:
                d[f] = (nm, "dir"); entries[p + (nm,)] = {}
        elif r < 0.42:
            L += ["open 0 %s %s w" % (ps(p), hexs(nm)), "write 0 %d %d" % (i + 1, rng.choice([0, 5, 700])), "close 0"]
            if f not in d:
                d[f] = (nm, "file")
        elif r < 0.60:
            L.append("rm %s %s" % (ps(p), hexs(nm)))
            if f in d:
                if d[f][1] == "dir":
                    sub = p + (d[f][0],)
                    if not entries.get(sub):
                        entries.pop(sub, None)
                        if sub in dirs: dirs.remove(sub)
                        del d[f]
                else:
                    del d[f]
        elif r < 0.82:
            p2 = rng.choice(dirs)
            nm2 = rng.choice(pool + [nm, nm.swapcase()])
            L.append("mv %s %s %s %s" % (ps(p), hexs(nm), ps(p2), hexs(nm2)))
            # the light model here does not track moves exactly; rebuild it from the listing is not needed for generation quality:
            f2 = gen.fold(flav, nm2)
            if f in d:
                src = d[f]
                d2 = entries[p2]
                inside = src[1] == "dir" and tuple(gen.fold(flav, c) for c in p2[:len(p) + 1]) == tuple(gen.fold(flav, c) for c in p + (src[0],))
                clash = f2 in d2 and not (p2 == p and f2 == f)
                if not clash and not inside and not (p == p2 and nm == nm2):
                    del d[f]
                    d2[f2] = (nm2[:30], src[1])
                    if src[1] == "dir":
                        old = p + (src[0],)
                        new = p2 + (nm2[:30],)
                        for q in list(entries):
                            if q[:len(old)] == old:
                                entries[new + q[len(old):]] = entries.pop(q)
                        dirs[:] = [new + q[len(old):] if q[:len(old)] == old else q for q in dirs]
        elif r < 0.90:
            L.append("comment %s %s %s" % (ps(p), hexs(nm), hexs(bytes(rng.choice(b"abc ") for _ in range(rng.choice([0, 3, 79, 85]))))))
        elif r < 0.96:
            L.append("prot %s %s %d" % (ps(p), hexs(nm), rng.choice([0, 0x10, 0xf0])))
        else:
            L.append("lookup %s %s" % (ps(p), hexs(nm)))
        if (i + 1) % 12 == 0 or i == nops - 1:
            k += 1
            L += ["list %s 0 0" % ps(rng.choice(dirs)), "free"]
            if rng.random() < 0.5:
                L += ["dump $W/img%d" % k, "spectree"]
            else:
                L += ["umount", "umountdev", "dump $W/img%d" % k, "spectree", "mountdev 0", "mount 0 0"]
    L += ["list - 0 0", "umount", "umountdev"]
    return L, 0, 1760, {"flavour": flav, "slot": slot, "colliding": [hexs(c) for c in coll]}


def slot_history(ctx):
    """every hash slot as the only occupied one of a directory: delete the directory (must be refused), delete the child, delete again"""
    rng = ctx.rng
    flav = rng.choice(gen.FLAVOURS)
    slots = [0, 1, 35, 70, 71] if ctx.tier == "quick" else list(range(72))
    L = gen.dev_create("DD", flav) + ["mountdev 0", "mount 0 0"]
    for sidx in slots:
        nm = gen.colliding_names(rng, flav, sidx, 2)
        d = b"d%02d" % sidx
        kind = rng.choice(["file", "dir"])
        L.append("mkdir - %s" % hexs(d))
        if kind == "file":
            L += ["open 0 %s %s w" % (hexs(d), hexs(nm[0])), "write 0 %d 30" % (sidx + 1), "close 0"]
        else:
            L.append("mkdir %s %s" % (hexs(d), hexs(nm[0])))
        L += ["rm - %s" % hexs(d), "list - 0 0", "lookup %s %s" % (hexs(d), hexs(nm[0])), "free"]
        if rng.random() < 0.5:
            L += ["rm %s %s" % (hexs(d), hexs(nm[0])), "rm - %s" % hexs(d)]
    L += ["free", "umount", "umountdev", "dump $W/img1", "spectree"]
    return L, 0, 1760, {"flavour": flav, "slots": slots}


def run(ctx):
    proof = common.proof_status(ctx)
    n = 40 if ctx.tier == "quick" else 800
    # block-level correspondence of the directory model the C02 theorems are about
    from . import chaincorr
    chaincorr.run(ctx, 12 if ctx.tier == "quick" else 300)
    b = [("hash-slot-sweep", slot_history) for _ in range(3 if ctx.tier == "quick" else 30)]
    b += [("namespace", ns_history) for _ in range(n)]
    # namespace calls interleaved with open handles on entries of the same hash chain (an open file buffers its header)
    from . import c01
    b += [x for x in c01.builders(ctx) if x[0] == "mixed-one-hash-chain"][: (10 if ctx.tier == "quick" else 200)]
    rule = ("block-level correspondence with Model/Chain.v (hash table + every chain link after every create/delete, colliding / case-variant / Latin-1 / over-long names); file histories with several open handles whose names share one hash chain (creates/deletes behind an open entry); random namespace call sequences over nested directories with 6 names colliding in one hash slot + 3 in another + case variants; every failing "
            "call kind occurs (duplicate, missing, not empty, into own subtree); image decoded and compared with the model every 12 calls; "
            "non-trivial = at least one failing call and one successful rename; distinct = distinct script")
    nt = lambda L, r: any(rs and rs[-1].startswith("err") for rs in r["results"].values()) and any(l.startswith("mv") for l in L)
    return histcheck.explore(ctx, proof, {"C02"}, b, rule,
                             ["names of 1..30 bytes without '/' and ':'; no delete/rename/re-attribute of an entry that has an open handle",
                              "'no space' failures are exercised by the C08 check"], nontrivial=nt)


def replay(ctx, rep):
    f = rep.get("failure", {})
    L = (f.get("input") or {}).get("minimised_script") or (f.get("input") or {}).get("script")
    if L:
        for x in hist.run_history(ctx, L)["findings"]:
            print(x)
    return 0

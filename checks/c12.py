"""C12 Read-only means read-only.
(a) proofs: no-write for any program, mount forces the flag, RDB writers guarded, funnel (Props/Properties_C12.v)
(b) guard level: compiled adfWriteBlock / RDB writers vs regenerated guards + oracle (no device access when read-only)
(c) the complete matrix  call x {device ro, mount ro, both} x flavour x device kind : every mutating call reports failure,
    the write log stays empty and the image is byte-identical
(d) random histories on read-only mounts."""
import hashlib, os
from . import common, gen
from .common import hexs

NEEDED = ["adfWriteBlock", "adfWriteRDSKblock", "adfWritePARTblock", "adfWriteFSHDblock", "adfWriteLSEGblock", "adfMount.readOnly", "funnel"]

# (name, script lines, result line index that must be 'err', is_open_handle)
def mutating_calls():
    A, B, D = hexs("fileA"), hexs("newname"), hexs("dirD")
    return [
        ("create_file", ["open 1 - %s w" % B]),
        ("create_file_rw", ["open 1 - %s rw" % B]),
        ("open_existing_w", ["open 1 - %s w" % A]),
        ("open_existing_rw", ["open 1 - %s rw" % A]),
        ("mkdir", ["mkdir - %s" % B]),
        ("rm_file", ["rm - %s" % A]),
        ("rm_dir", ["rm - %s" % hexs("emptyD")]),
        ("rename", ["mv - %s - %s" % (A, B)]),
        ("move", ["mv - %s %s %s" % (A, D, A)]),
        ("comment", ["comment - %s %s" % (A, hexs("hello"))]),
        ("comment_dir", ["comment - %s %s" % (D, hexs("hello"))]),
        ("prot", ["prot - %s 16" % A]),
        ("prot_dir", ["prot - %s 16" % D]),
        ("bootinst", ["bootinst"]),
        ("undel", ["undel - %d" % 0]),       # sector filled in by the caller
        ("wrblk", ["wrblk 5 170"]),
    ]


def base_image(ctx, kind, flav):
    """script prefix creating a populated volume, closing it; returns lines"""
    L = gen.dev_create(kind, flav) + ["mountdev 0", "mount 0 0",
        "open 0 - %s w" % hexs("fileA"), "write 0 11 1500", "close 0",
        "mkdir - %s" % hexs("dirD"), "mkdir - %s" % hexs("emptyD"),
        "open 0 - %s w" % hexs("gone"), "write 0 12 600", "close 0", "lookup - %s" % hexs("gone"), "rm - %s" % hexs("gone"),
        "umount", "umountdev"]
    return L


def file_sha(p):
    h = hashlib.sha1()
    with open(p, "rb") as f:
        h.update(f.read())
    return h.hexdigest()


def run(ctx):
    proof = common.proof_status(ctx)
    tf = common.translator_failures(ctx, NEEDED)
    if tf:
        proof["problems"].append("translator could not translate: %s" % tf)
    rng = ctx.rng
    # (b) guards
    lines = []
    for _ in range(300):
        f = rng.randrange(0, 5000)
        l = f + rng.randrange(0, 5000)
        n = rng.choice([0, 1, l - f, l - f + 1, rng.randrange(0, 2 ** 32)])
        lines.append("adfWriteBlock %d %d %d %d %d" % (n, f, l, rng.choice([0, 1, 1]), rng.choice([0, 1, 1, 7])))
    for w in ("adfWriteRDSKblock", "adfWritePARTblock", "adfWriteFSHDblock", "adfWriteLSEGblock"):
        for ro in (0, 1, 5):
            for n in (0, 1, 3, 40):
                lines.append("%s %d %d" % (w, ro, n))
    text = "\n".join(lines) + "\n"
    rc, cout, _ = common.run_lines(ctx.bin("leafh"), text)
    cres = cout.splitlines()
    if os.path.exists(ctx.ocaml("leafm")):
        rc2, mout, _ = common.run_lines(ctx.ocaml("leafm"), text)
        for a, b in zip(cres, mout.splitlines()):
            if a != b:
                ctx.fail("corr", "generated guard and compiled C disagree", a.split(" = ")[0], expected=b, actual=a, stream="guard")
                break
    for l in cres:
        lhs, _, rhs = l.partition(" = ")
        t = lhs.split()
        ro = int(t[5]) if t[0] == "adfWriteBlock" else int(t[1])
        ctx.count(lhs)
        ctx.bump("guard")
        if ro != 0 and rhs.startswith("dev"):
            ctx.fail("oracle", "%s reached the device although read-only" % t[0], {"call": lhs}, expected="ret <non-zero>", actual=rhs)
        if ro != 0 and rhs.strip() == "ret 0":
            ctx.fail("oracle", "%s reports success although read-only" % t[0], {"call": lhs}, expected="ret <non-zero>", actual=rhs)
    # (c) matrix
    kinds = ["DD", "HF:4000", "PART:120:2:16:2,118"] if ctx.tier == "quick" else ["DD", "HD", "HF:4000", "HF:9001", "PART:120:2:16:2,118", "PART:130:2:16:2,60;62,60"]
    flavs = [0, 1, 5] if ctx.tier == "quick" else gen.FLAVOURS
    # driver-ro: the device is asked for read-write, but the medium is write-protected - the driver can only get read-only access and reports
    # it (as adfInitDumpDevice does on EACCES / EROFS); native devices only (the harness runs as root: a dump file can always be opened rw)
    modes = [(1, 0, "dev-ro"), (0, 1, "mount-ro"), (1, 1, "both"), (0, 0, "driver-ro")]
    for kind in kinds:
        for flav in flavs:
            pre = base_image(ctx, kind, flav)
            for (dro, mro, mname) in modes:
                if mname == "driver-ro" and kind.startswith("HF"):
                    continue
                calls = mutating_calls()
                L = list(pre) + ["dump $W/before"] + (["wprotect 1"] if mname == "driver-ro" else []) + ["mountdev %d" % dro, "wlog $W/log", "mount 0 %d" % mro]
                idx = {}
                for (cname, cl) in calls:
                    if cname == "bootinst" and not kind in ("DD", "HD"):
                        continue
                    if cname == "undel":
                        continue     # needs the sector of the deleted header; done below per image
                    for c in cl:
                        L.append(c)
                    idx[cname] = len(L)
                    if cname.startswith("open_existing") or cname.startswith("create_file"):
                        # if the open was (wrongly) granted, try to push data through it
                        L += ["write 1 5 100", "flush 1", "trunc 1 10", "close 1"]
                L += ["umount", "wlog off", "umountdev", "dump $W/after"]
                script = "\n".join(L) + "\n"
                rc, out, err, wd = common.run_script(ctx, script)
                res = common.parse_results(out)
                ctx.count(("matrix", kind, flav, mname))
                ctx.bump("matrix:" + mname)
                if rc != 0:
                    ctx.fail("crash", "harness exit %d in read-only matrix" % rc, {"script": script, "mode": mname, "kind": kind, "flavour": flav}, actual=(out[-3:], err[-300:]))
                    continue
                for cname, li in idx.items():
                    r = (res.get(li) or ["?"])[0]
                    if not r.startswith("err"):
                        ctx.fail("oracle", "mutating call '%s' reports success on a read-only %s" % (cname, mname),
                                 {"script": script, "line": li, "mode": mname, "kind": kind, "flavour": flav, "call": cname}, expected="err", actual=r)
                lp = os.path.join(wd, "log")
                nw = sum(1 for l in open(lp) if l.startswith("W")) if os.path.exists(lp) else 0
                if nw:
                    ctx.fail("oracle", "%d device write(s) on a read-only %s" % (nw, mname),
                             {"script": script, "mode": mname, "kind": kind, "flavour": flav}, expected="no write", actual=open(lp).read()[:400])
                b, a = os.path.join(wd, "before"), os.path.join(wd, "after")
                if os.path.exists(b) and os.path.exists(a) and file_sha(b) != file_sha(a):
                    ctx.fail("oracle", "image bytes changed on a read-only %s" % mname, {"script": script, "mode": mname, "kind": kind, "flavour": flav},
                             expected="identical image", actual="sha differs")
                for f in ("before", "after"):
                    try:
                        os.unlink(os.path.join(wd, f))
                    except OSError:
                        pass
            # format / re-label on a read-only device
            geo = {"DD": "80 2 11", "HD": "80 2 22"}.get(kind)
            fm = ["mkflop %d %s" % (flav, hexs("X"))] if kind in ("DD", "HD") else (["mkhdf %d %s" % (flav, hexs("X"))] if kind.startswith("HF") else
                  ["mkhd 1 2 50 %d %s" % (flav, hexs("X"))])
            if kind.startswith("HF"):
                L = list(pre) + ["dump $W/before", "opendev 1"] + fm + ["closedev", "dump $W/after"]
            else:
                L = list(pre) + ["dump $W/before", "opendev 1"] + fm + ["closedev", "dump $W/after"]
            script = "\n".join(L) + "\n"
            rc, out, err, wd = common.run_script(ctx, script)
            res = common.parse_results(out)
            ctx.count(("format-ro", kind, flav))
            ctx.bump("format_on_ro_device")
            li = len(pre) + 3
            r = (res.get(li) or ["?"])[0]
            if rc != 0:
                ctx.fail("crash", "harness exit %d formatting a read-only device" % rc, {"script": script, "kind": kind}, actual=(out[-3:], err[-300:]))
            else:
                if not r.startswith("err"):
                    ctx.fail("oracle", "formatting a read-only device reports success", {"script": script, "kind": kind, "flavour": flav}, expected="err", actual=r)
                b, a = os.path.join(wd, "before"), os.path.join(wd, "after")
                if os.path.exists(b) and os.path.exists(a) and file_sha(b) != file_sha(a):
                    ctx.fail("oracle", "formatting a read-only device changed the image", {"script": script, "kind": kind, "flavour": flav}, expected="identical image", actual="sha differs")
    ctx.sample({"matrix_example": "DD flavour 0 mount-ro: %s" % [c for c, _ in mutating_calls()]})
    # (d) random histories on read-only mounts
    for i in range(6 if ctx.tier == "quick" else 60):
        flav = rng.choice(gen.FLAVOURS)
        dro, mro, mname = rng.choice(modes)
        h = gen.Hist(rng, flav)
        h.dirs[()] = {gen.fold(flav, b"fileA"): (b"fileA", "file"), gen.fold(flav, b"dirD"): (b"dirD", "dir"), gen.fold(flav, b"emptyD"): (b"emptyD", "dir")}
        h.dirs[(b"dirD",)] = {}
        h.dirs[(b"emptyD",)] = {}
        L = base_image(ctx, "DD", flav) + ["dump $W/before"] + (["wprotect 1"] if mname == "driver-ro" else []) + ["mountdev %d" % dro, "wlog $W/log", "mount 0 %d" % mro]
        for _ in range(40):
            L += h.step()
        L += h.close_all() + ["umount", "wlog off", "umountdev", "dump $W/after"]
        script = "\n".join(L) + "\n"
        rc, out, err, wd = common.run_script(ctx, script)
        ctx.count(("hist", i, flav, mname))
        ctx.bump("history:" + mname)
        lp = os.path.join(wd, "log")
        nw = sum(1 for l in open(lp) if l.startswith("W")) if os.path.exists(lp) else 0
        if rc != 0:
            ctx.fail("crash", "harness exit %d in a read-only history" % rc, {"script": script}, actual=(out[-3:], err[-300:]))
        elif nw or file_sha(os.path.join(wd, "before")) != file_sha(os.path.join(wd, "after")):
            ctx.fail("oracle", "device written during a history on a read-only %s" % mname, {"script": script}, expected="no write", actual="%d writes" % nw)
    rule = ("guard calls with read-only flags; matrix of every mutating API call x {device ro, mount ro, both, read-write asked on a write-protected medium (the driver forces read-only)} x flavour x device kind (return value, write log, "
            "image hash); formatting a read-only device; random histories on read-only mounts; distinct = distinct call line / matrix cell / history")
    return common.finish(ctx, proof, rule, extra_cov={"exhaustive": False},
                         assumptions=["a dump device opened read-only is fopen'ed 'rb' (adfInitDumpDevice); not part of the model",
                                      "undelete (adfUndelEntry) is exercised only through the guard-level theorem: every block write it does goes through adfWriteBlock"])


def replay(ctx, rep):
    print(rep.get("failure"))
    return 0

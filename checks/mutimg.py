"""Field-level mutators of well-formed images (C10, C11)."""
import struct
from . import mkimage
from .mkimage import get32, put32, fix_sum


EXTRA = {}      # (block, offset) -> additional values worth trying for that field (computed from the image)


def metadata_fields(img, n, dec_owned, flav):
    """enumerate (block, offset, width, name, kind-of-block) for the metadata blocks reached by the decoder"""
    root = n // 2
    out = []
    for b in dec_owned:
        blk = img[b * 512:(b + 1) * 512]
        typ = struct.unpack(">i", blk[0:4])[0]
        sec = struct.unpack(">i", blk[508:512])[0]
        if b == root or (typ == 2 and sec in (1, 2, -3, -4, 4, 3)):
            kind = "root" if b == root else {2: "dir", -3: "file", -4: "lfile", 4: "ldir", 3: "lsoft"}.get(sec, "entry")
            for name, off in (("type", 0), ("headerKey", 4), ("highSeq", 8), ("hashTableSize/dataSize", 12), ("firstData", 16),
                              ("byteSize", 324), ("realEntry", 468), ("nextLink", 472),
                              ("nextSameHash", 496), ("parent", 500), ("extension", 504), ("secType", 508)):
                out.append((b, off, 4, name, kind))
            if b == root:
                for i in range(0, 3):
                    out.append((b, 316 + 4 * i, 4, "bmPages[%d]" % i, kind))
                out.append((b, 416, 4, "bmExt", kind))
                out.append((b, 312, 4, "bmFlag", kind))
            out.append((b, 328, 1, "commLen", kind))
            out.append((b, 432, 1, "nameLen", kind))
            used = [i for i in range(72) if get32(blk, 24 + 4 * i)]
            for i in used[:3] + used[-2:]:
                out.append((b, 24 + 4 * i, 4, "table[%d]" % i, kind))
            if used:
                free_slot = [i for i in range(72) if i not in used][:1]
                for i in free_slot:
                    out.append((b, 24 + 4 * i, 4, "table[%d](empty)" % i, kind))
        elif typ == 16:
            for name, off in (("type", 0), ("headerKey", 4), ("highSeq", 8), ("parent", 500), ("extension", 504), ("secType", 508)):
                out.append((b, off, 4, name, "ext"))
            used = [i for i in range(72) if get32(blk, 24 + 4 * i)]
            for i in used[:2] + used[-1:]:
                out.append((b, 24 + 4 * i, 4, "table[%d]" % i, "ext"))
        elif typ == 33:
            for name, off in (("type", 0), ("headerKey", 4), ("parent", 8), ("recordsNb", 12), ("nextDirC", 16)):
                out.append((b, off, 4, name, "cache"))
            # first record: header, nLen, cLen ; and the record that ends the block
            out.append((b, 24, 4, "rec0.header", "cache"))
            out.append((b, 24 + 22, 1, "rec0.type", "cache"))
            out.append((b, 24 + 23, 1, "rec0.nLen", "cache"))
            nl = blk[24 + 23]
            out.append((b, 24 + 24 + nl, 1, "rec0.cLen", "cache"))
            # the later records: lengths that make a record end exactly at / one byte past / far past the 488-byte record area
            nrec = struct.unpack(">i", blk[12:16])[0]
            p_ = 0
            recs_ = []
            for _ in range(max(0, min(nrec, 40))):
                if p_ + 25 > 488:
                    break
                nl_ = blk[24 + p_ + 23]
                if p_ + 24 + nl_ >= 488:
                    break
                cl_ = blk[24 + p_ + 24 + nl_]
                recs_.append((p_, nl_, cl_))
                ln_ = 25 + nl_ + cl_
                p_ += ln_ + (ln_ & 1)
            for (p_, nl_, cl_) in (recs_[-1:] + recs_[len(recs_) // 2: len(recs_) // 2 + 1] if len(recs_) > 1 else []):
                fn_ = (b, 24 + p_ + 23, 1, "recN.nLen", "cache")
                fc_ = (b, 24 + p_ + 24 + nl_, 1, "recN.cLen", "cache")
                out.append(fn_)
                out.append(fc_)
                room = 488 - (p_ + 25 + nl_)
                EXTRA[(fc_[0], fc_[1])] = [v for v in (room - 1, room, room + 1, room + 2, 79, 80) if 0 <= v <= 255]
                EXTRA[(fn_[0], fn_[1])] = [v for v in (488 - p_ - 26, 488 - p_ - 25, 488 - p_ - 24, 30, 31) if 0 <= v <= 255]
        elif typ == 8 and not (flav & 1):
            for name, off in (("type", 0), ("headerKey", 4), ("seqNum", 8), ("dataSize", 12), ("nextData", 16)):
                out.append((b, off, 4, name, "ofsdata"))
    out.append((0, 8, 4, "boot.rootBlock", "boot"))
    out.append((0, 3, 1, "boot.flavour", "boot"))
    out.append((0, 0, 1, "boot.D", "boot"))
    return out


VALUES32 = [0, 1, 2, 30, 31, 72, 73, 127, 128, 255, 487, 488, 489, 512, 0x7FFFFFFF, 0x80000000, 0xFFFFFFFF, 0xFFFFFFFE]
VALUES8 = [0, 1, 30, 31, 79, 80, 127, 128, 255]


def mutate(img, n, field, value, fixsum=True):
    b, off, width, name, kind = field
    m = bytearray(img)
    if width == 4:
        put32(m, b * 512 + off, value)
    else:
        m[b * 512 + off] = value & 0xFF
    if fixsum and kind not in ("boot", "ofsdata-none"):
        blk = bytearray(m[b * 512:(b + 1) * 512])
        if kind in ("root", "dir", "file", "lfile", "ldir", "lsoft", "entry", "ext", "cache", "ofsdata"):
            fix_sum(blk)
            m[b * 512:(b + 1) * 512] = blk
    return bytes(m)

"""C01 File content fidelity.
Proof part: position/size arithmetic of the regenerated leaf functions (Props/Properties_C01.v).
Exploration part: generated interleavings of open/read/write/seek/truncate/flush/close over several files and handles
(one writer per file), on all six flavours, DD/HD floppies and hardfiles, after fragmentation; three-way comparison
implementation / extracted reference model (Spec/FsSpec.v) / extracted decoder (Spec/Decode.v) at every quiescent point."""
import os
from . import common, gen, hist, histcheck

VARIANTS = ("plain", "ofsseek")
from .common import hexs

NEEDED = ["adfPos2DataBlock", "adfFilePos2datablockIndex", "adfFileSize2Datablocks", "adfFileDatablocks2Extblocks",
          "adfFileSize2Extblocks", "adfFileSize2Blocks", "adfFileRealSize"]


def leaf_geometry(ctx, proof):
    rng = ctx.rng
    lines = []
    for bs in (488, 512):
        for k in (0, 1, 2, 71, 72, 73, 143, 144, 145, 215, 216, 217, 1000, 8801447 if bs == 488 else 8388607):
            for d in (-1, 0, 1):
                p = k * bs + d
                if 0 <= p < 2 ** 32:
                    lines += ["adfPos2DataBlock %d %d" % (p, bs), "adfFileSize2Datablocks %d %d" % (p, bs), "adfFileSize2Blocks %d %d" % (p, bs),
                              "adfFileRealSize %d %d" % (p, bs), "adfFileSize2Extblocks %d %d" % (p, bs)]
        for _ in range(300 if ctx.tier == "quick" else 5000):
            p = rng.randrange(0, 2 ** 32)
            lines += ["adfPos2DataBlock %d %d" % (p, bs), "adfFileSize2Blocks %d %d" % (p, bs), "adfFileRealSize %d %d" % (p, bs)]
    for d in list(range(0, 300)) + [2 ** 32 - 1, 2 ** 31]:
        lines.append("adfFileDatablocks2Extblocks %d" % d)
    text = "\n".join(lines) + "\n"
    rc, cout, _ = common.run_lines(ctx.bin("leafh"), text)
    cres = cout.splitlines()
    if os.path.exists(ctx.ocaml("leafm")):
        _, mout, _ = common.run_lines(ctx.ocaml("leafm"), text)
        for a, b in zip(cres, mout.splitlines()):
            if a != b:
                ctx.fail("corr", "generated Gallina and compiled C disagree", a.split(" = ")[0], expected=b, actual=a, stream="leaf")
                break
    cd = lambda a, b: (a + b - 1) // b
    for l in cres:
        lhs, _, rhs = l.partition(" = ")
        t = lhs.split()
        v = list(map(int, rhs.split()))
        ctx.count(lhs)
        ctx.bump("leaf:" + t[0])
        if t[0] == "adfPos2DataBlock":
            pos, bs = int(t[1]), int(t[2])
            blk = pos // bs
            exp = [-1, 0, pos % bs, blk] if blk < 72 else [(blk - 72) // 72, (blk - 72) % 72, pos % bs, blk]
            if v != exp:
                ctx.fail("oracle", "adfPos2DataBlock: wrong decomposition of the position", {"pos": pos, "blocksize": bs}, expected=exp, actual=v)
        elif t[0] in ("adfFileSize2Datablocks",):
            if v[0] != cd(int(t[1]), int(t[2])):
                ctx.fail("oracle", "%s wrong" % t[0], {"size": int(t[1]), "blocksize": int(t[2])}, expected=cd(int(t[1]), int(t[2])), actual=v[0])
        elif t[0] in ("adfFileSize2Blocks", "adfFileRealSize"):
            d = cd(int(t[1]), int(t[2]))
            e = 0 if d <= 72 else cd(d - 72, 72)
            if v[0] != d + e + 1:
                ctx.fail("oracle", "%s wrong" % t[0], {"size": int(t[1]), "blocksize": int(t[2])}, expected=d + e + 1, actual=v[0])


def builders(ctx):
    rng = ctx.rng
    out = []
    n = 60 if ctx.tier == "quick" else 600
    kinds = ["DD"] * 6 + ["HD", "HF:4000", "HF:5004"]     # even sizes: odd hardfiles lose their last block on mount (C14)

    def mk(label, **kw):
        def fn(ctx, kw=kw):
            flav = kw.get("flav", rng.choice(gen.FLAVOURS))
            kind = kw.get("kind", rng.choice(kinds))
            first, nb = hist.geometry(kind)
            names = None
            if kw.get("collide"):
                # every name in one hash chain: entries are created and deleted behind entries that are open
                names = gen.colliding_names(rng, flav, rng.randrange(72), 7)
            L = hist.build_history(ctx, flav, kind=kind, nops=kw.get("nops", 45), big=kw.get("big", False), dirs=kw.get("dirs", True), names=names)
            return L, first, nb, {"flavour": flav, "kind": kind, "big": kw.get("big", False), "one_hash_chain": bool(names)}
        return (label, fn)
    for i in range(n):
        flav = gen.FLAVOURS[i % 6]
        if i % 3 == 0:
            out.append(mk("mixed-big", flav=flav, big=True, nops=40))
        elif i % 3 == 1:
            out.append(mk("mixed-one-hash-chain", flav=flav, collide=True, dirs=(i % 2 == 0)))
        else:
            out.append(mk("mixed", flav=flav))

    # alignment sweep: one file, every op kind at block / 72-block boundaries
    def align(ctx):
        flav = rng.choice(gen.FLAVOURS[:4])
        bs = 512 if flav & 1 else 488
        k = rng.choice([0, 1, 71, 72, 73, 143, 144, 145])
        d = rng.choice([-1, 0, 1])
        size = max(0, k * bs + d)
        k2 = rng.choice([0, 1, 71, 72, 73, 144])
        size2 = max(0, k2 * bs + rng.choice([-1, 0, 1]))
        A, B = hexs(b"A"), hexs(b"frag")
        L = gen.dev_create("DD", flav) + ["mountdev 0", "mount 0 0",
            "open 1 - %s w" % B, "write 1 3 %d" % (3 * bs + 7), "close 1",
            "open 0 - %s w" % A, "write 0 7 %d" % size, "close 0",
            "rm - %s" % B,                                   # leave a hole so that later blocks are not contiguous
            "open 0 - %s rw" % A, "seek 0 %d" % max(0, size - bs - 1), "read 0 %d" % (2 * bs), "seek 0 %d" % (size // 2),
            "write 0 9 %d" % (bs + 1), "trunc 0 %d" % size2, "write 0 11 %d" % rng.choice([1, bs, bs + 1]), "stat 0",
            "seek 0 0", "read 0 %d" % (size2 + 2 * bs), "close 0",
            "free", "umount", "umountdev", "dump $W/img1", "spectree", "mountdev 0", "mount 0 0",
            "open 0 - %s r" % A, "read 0 %d" % (size2 + 3 * bs), "close 0", "umount", "umountdev"]
        return L, 0, 1760, {"flavour": flav, "size": size, "size2": size2}
    for i in range(24 if ctx.tier == "quick" else 300):
        out.append(("alignment", align))

    # transition sweep: (how the handle arrived at a position: fresh open / seek / read up to it / write up to it) x (where the
    # position is: block edge, 72-block edge, EOF, beyond) x (what comes next: write / read / truncate / flush), on a reopened file
    def transitions(ctx):
        flav = rng.choice(gen.FLAVOURS)
        bs = 512 if flav & 1 else 488
        k = rng.choice([1, 2, 71, 72, 73, 73, 74, 143, 144, 145])
        size = max(1, k * bs + rng.choice([-1, 0, 0, 1]))
        A = hexs(b"A")
        L = gen.dev_create("DD", flav) + ["mountdev 0", "mount 0 0"]
        if rng.random() < 0.5:
            L += ["open 1 - %s w" % hexs(b"frag"), "write 1 3 %d" % (2 * bs + 7), "close 1"]
        L += ["open 0 - %s w" % A, "write 0 7 %d" % size, "close 0"]
        if "frag" in " ".join(L) or True:
            L += ["rm - %s" % hexs(b"frag")] if any("66726167" in l for l in L) else []
        L += ["open 0 - %s rw" % A]
        pos = 0

        def pos_choice(limit):
            c = [0, bs - 1, bs, bs + 1, 71 * bs, 72 * bs - 1, 72 * bs, 72 * bs + 1, 73 * bs, 144 * bs, limit - bs, limit - 1, limit, limit // 2]
            return rng.choice([x for x in c if 0 <= x <= limit])
        seq = []
        for _ in range(rng.randint(1, 4)):
            arrive = rng.choice(["none", "seek", "read", "write"])
            if arrive != "none":
                p = pos_choice(size)
                if arrive == "seek":
                    L += ["seek 0 %d" % p]
                else:
                    start = max(0, p - rng.choice([1, bs, 2 * bs, p if p else 1]))
                    L += ["seek 0 %d" % start] if start != pos else []
                    if p > start:
                        L += ["%s 0 %s%d" % (arrive, "13 " if arrive == "write" else "", p - start)]
                pos = p
            op = rng.choice(["write", "write", "read", "trunc", "flush"])
            if op == "write":
                n = rng.choice([1, bs - 1, bs, bs + 1, 2 * bs, 72 * bs, 73 * bs + 5, max(1, size - pos), size - pos + 1, 2 * size - pos + 1])
                n = max(1, min(n, 160 * bs))
                L += ["write 0 %d %d" % (17 + len(seq), n)]
                pos += n
                size = max(size, pos)
            elif op == "read":
                n = rng.choice([1, bs, 2 * bs, size])
                L += ["read 0 %d" % n]
                pos = min(size, pos + n)
            elif op == "trunc":
                t = rng.choice([pos_choice(size), size + bs, size + 1])
                L += ["trunc 0 %d" % t]
                size = t
                pos = min(pos, size)
            else:
                L += ["flush 0"]
            seq.append((arrive, op))
        L += ["stat 0", "seek 0 0", "read 0 %d" % (size + bs), "close 0", "free", "dump $W/img1", "spectree",
              "umount", "umountdev", "mountdev 0", "mount 0 0", "open 0 - %s r" % A, "read 0 %d" % (size + bs), "close 0", "umount", "umountdev"]
        return L, 0, 1760, {"flavour": flav, "blocks": k, "transitions": seq}
    for i in range(60 if ctx.tier == "quick" else 900):
        out.append(("transitions", transitions))

    # truncate sweep: files with 0..3 extension blocks cut (or grown) to sizes on / next to block and 72-block edges, through the
    # handle that wrote them or a fresh one, then appended to; extension blocks that stay exactly full are the interesting case
    def truncsweep(ctx):
        flav = rng.choice(gen.FLAVOURS)
        bs = 512 if flav & 1 else 488
        k1 = rng.choice([73, 100, 144, 145, 150, 161, 216, 217, 220])
        k2 = rng.choice([0, 1, 71, 72, 73, 143, 144, 144, 145, 215, 216, 216, 217, 230])
        size1 = k1 * bs + rng.choice([-1, 0, 1, 7])
        size2 = max(0, k2 * bs + rng.choice([-1, 0, 0, 1]))
        A = hexs(b"A")
        same = rng.random() < 0.5
        L = gen.dev_create("DD", flav) + ["mountdev 0", "mount 0 0", "open 0 - %s w" % A, "write 0 7 %d" % size1]
        if not same:
            L += ["close 0", "open 0 - %s rw" % A]
            if rng.random() < 0.5:
                L += ["seek 0 %d" % rng.choice([0, size1, size1 // 2, 72 * bs, 73 * bs])]
        L += ["trunc 0 %d" % size2, "stat 0"]
        size = size2
        tail = rng.choice(["none", "append", "append-big", "close-append", "read"])
        if tail == "append":
            L += ["seek 0 %d" % size, "write 0 9 %d" % rng.choice([1, bs, bs + 1])]
        elif tail == "append-big":
            L += ["seek 0 %d" % size, "write 0 9 %d" % (73 * bs + 3)]
        elif tail == "close-append":
            L += ["close 0", "open 0 - %s rw" % A, "seek 0 %d" % size, "write 0 9 %d" % rng.choice([1, 2 * bs])]
        elif tail == "read":
            L += ["seek 0 %d" % max(0, size - 2 * bs), "read 0 %d" % (3 * bs)]
        L += ["close 0", "free", "dump $W/img1", "spectree", "umount", "umountdev", "mountdev 0", "mount 0 0",
              "open 0 - %s r" % A, "read 0 %d" % (400 * bs), "close 0", "rm - %s" % A, "free", "dump $W/img2", "spectree", "umount", "umountdev"]
        return L, 0, 1760, {"flavour": flav, "blocks_before": k1, "blocks_after": k2, "same_handle": same, "then": tail}
    for i in range(50 if ctx.tier == "quick" else 900):
        out.append(("truncate-sweep", truncsweep))

    # release and reuse: a handle that has walked into the extension blocks of file A gives blocks back (truncate) and stays open
    # while file B grows into the freed blocks; then the first handle is used again / flushed / closed
    def reuse(ctx):
        flav = rng.choice(gen.FLAVOURS)
        bs = 512 if flav & 1 else 488
        kA = rng.choice([74, 100, 145, 150])
        A, B = hexs(b"A"), hexs(b"B")
        L = gen.dev_create("DD", flav) + ["mountdev 0", "mount 0 0"]
        how = rng.choice(["writer", "reopen-seek", "reopen-read"])
        L += ["open 0 - %s w" % A, "write 0 7 %d" % (kA * bs + 5)]
        if how != "writer":
            L += ["close 0", "open 0 - %s rw" % A]
            if how == "reopen-seek":
                L += ["seek 0 %d" % (rng.choice([73, kA - 1]) * bs)]
            else:
                L += ["seek 0 %d" % (72 * bs - 10), "read 0 %d" % (2 * bs)]
        t = rng.choice([0, 0, 1, bs, 10 * bs, 72 * bs, 73 * bs])
        L += ["trunc 0 %d" % t]
        L += ["open 1 - %s w" % B, "write 1 8 %d" % (rng.choice([3, 40, 80, 150]) * bs + 9)]
        if rng.random() < 0.5:
            L += ["close 1"]
        after = rng.choice(["close", "flush", "write", "write-big"])
        if after == "flush":
            L += ["flush 0"]
        elif after == "write":
            L += ["write 0 11 %d" % rng.choice([1, bs, 3 * bs])]
        elif after == "write-big":
            L += ["write 0 11 %d" % (74 * bs)]
        L += ["close 0", "close 1", "free", "dump $W/img1", "spectree", "umount", "umountdev", "mountdev 0", "mount 0 0",
              "open 0 - %s r" % A, "read 0 %d" % (400 * bs), "close 0", "open 0 - %s r" % B, "read 0 %d" % (400 * bs), "close 0", "umount", "umountdev"]
        return L, 0, 1760, {"flavour": flav, "blocks": kA, "first_handle": how, "truncate_to": t, "then": after}
    for i in range(40 if ctx.tier == "quick" else 900):
        out.append(("release-and-reuse", reuse))
    # the other history-based checks take a prefix of this list: mix the kinds
    order = list(range(len(out)))
    rng.shuffle(order)
    return [out[i] for i in order]


def run(ctx):
    proof = common.proof_status(ctx)
    # block-level correspondence of the file block-list model the FileMap theorems are about
    from . import filemapcorr
    filemapcorr.run(ctx, 14 if ctx.tier == "quick" else 350)
    # call-level correspondence of the file handle state machine the FileIO theorems are about (struct AdfFile fields, results and
    # raw blocks after every call = Model/FileIO.v)
    from . import fileiocorr
    fileiocorr.run(ctx, 40 if ctx.tier == "quick" else 1500)
    # the OFS walk along the data blocks (adfFileSeekOFS_, the fallback of a failed table-driven seek): library built with -DTEST_OFS_SEEK
    fileiocorr.run_ofsseek(ctx, 16 if ctx.tier == "quick" else 600)
    tf = common.translator_failures(ctx, NEEDED)
    if tf:
        proof["problems"].append("translator could not translate: %s" % tf)
    leaf_geometry(ctx, proof)
    rule = ("leaf geometry calls at every alignment around 488/512 and multiples of 72 blocks plus random positions; random interleavings over up to 4 handles and "
            "10 names with remount/dump points, files up to 40 blocks (mixed) or up to 145 blocks (mixed-big), all names in one hash chain (mixed-one-hash-chain), boundary alignment sweeps with "
            "fragmentation, transition sweeps on a reopened file (arrive at a block / 72-block / EOF edge by seek, read or write, then write / read / truncate / flush), truncate sweeps "
            "(1..3 extension blocks cut to every 72-block edge, same or fresh handle, then append) and release-and-reuse (blocks freed through an open handle reused by another file); "
            "non-trivial = history contains at least one write and one read/seek/truncate; distinct = distinct script")
    nt = lambda L, r: any(l.startswith("write") for l in L) and any(l.split()[0] in ("read", "seek", "trunc") for l in L if l.split())
    return histcheck.explore(ctx, proof, {"C01"}, builders(ctx), rule,
                             ["one writer per file; no reader beside a writer on the same file (what it would see before a flush is not specified)",
                              "host malloc never fails", "files below 2^32 bytes"], nontrivial=nt)


def replay(ctx, rep):
    f = rep.get("failure", {})
    L = (f.get("input") or {}).get("minimised_script") or (f.get("input") or {}).get("script")
    if L:
        r = hist.run_history(ctx, L)
        for x in r["findings"]:
            print(x)
    return 0

"""C17 Initialised, reproducible output.
Every history runs twice on the implementation with the clock pinned and with different heap (0xAA / 0x55) and stack
(0x11 / 0xEE) pre-fill patterns; the two images must be byte-identical (floppy, hardfile, partitioned disk; all formatting
calls and operation histories).  Thorough tier: the same histories under valgrind memcheck with every buffer handed to the
device checked for undefined bytes is approximated by a third run with a third fill pattern."""
import hashlib, os
from . import common, gen, hist, c01, c02, c07
from .common import hexs

VARIANTS = ("plain", "vg")


def run_twice(ctx, L, label, meta, variant="adfh"):
    imgs = []
    outs = []
    meta = dict(meta, build=variant)
    for (hf, sf) in ((0xAA, 0x11), (0x55, 0xEE)) + (((0x00, 0xFF),) if ctx.tier == "thorough" else ()):
        LL = ["heapfill %d" % hf, "stackfill %d" % sf, "clock 1000000000"] + [l for l in L if not l.startswith("dump") and l != "spectree"] + ["dump $W/final"]
        rc, out, err, wd = common.run_script(ctx, "\n".join(LL) + "\n", timeout=300, variant=variant)
        p = os.path.join(wd, "final")
        if rc != 0 or not os.path.exists(p):
            ctx.fail("crash", "harness exit %d in a determinism run" % rc, {"generator": label, "meta": meta, "script": LL}, actual=(out[-2:], err[-200:]))
            return
        imgs.append(open(p, "rb").read())
        outs.append([l for l in out if " ok" in l or " err" in l])
        os.unlink(p)
    ctx.count((label, variant, hashlib.sha1("\n".join(L).encode()).hexdigest()))
    ctx.bump("history:" + label)
    a = imgs[0]
    for b in imgs[1:]:
        if a != b:
            diffs = [i for i in range(0, min(len(a), len(b))) if a[i] != b[i]]
            blocks = sorted(set(i // 512 for i in diffs))
            ctx.fail("oracle", "the same calls under the same clock produced different images when the process memory held different bytes before",
                     {"generator": label, "meta": meta, "script": L},
                     expected="byte-identical images",
                     actual={"differing_bytes": len(diffs), "blocks": blocks[:12], "first_offsets_in_block": [(i // 512, i % 512, a[i], b[i]) for i in diffs[:6]]})
            return
    if outs[0] != outs[1]:
        ctx.fail("oracle", "the same calls returned different results under different memory pre-fill", {"generator": label, "meta": meta, "script": L},
                 expected=outs[0][-3:], actual=outs[1][-3:])
    if len(ctx.samples) < 3:
        ctx.sample({"generator": label, "meta": meta, "lines": len(L)})


def memcheck_pass(ctx, cases):
    """the same scripts under valgrind memcheck (no pre-fill, -O0 build): the harness asks memcheck whether every byte of every
    buffer handed to the device is defined - this also sees remnants of earlier callees' stack frames and of freed heap blocks,
    which are the same in both pre-filled runs"""
    import shutil, subprocess
    if shutil.which("valgrind") is None:
        ctx.notes.append("valgrind not found: definedness pass skipped")
        return

    def one(job):
        k, (label, meta, L) = job
        d_ = os.path.join(ctx.work, "mc%d" % k)
        os.makedirs(d_, exist_ok=True)
        LL = ["clock 1000000000"] + [l for l in L if not l.startswith("dump") and l != "spectree"]
        sp = os.path.join(d_, "script")
        open(sp, "w").write(("\n".join(LL) + "\n").replace("$W", d_))
        r = subprocess.run(["valgrind", "-q", "--error-exitcode=97", "--track-origins=no", "--leak-check=no", ctx.bin("adfh-vg"), sp, d_],
                           stdout=subprocess.PIPE, stderr=subprocess.PIPE, text=True, timeout=1200)
        shutil.rmtree(d_, ignore_errors=True)
        return r.returncode, r.stdout, r.stderr
    for (label, meta, L), (rc, out, err) in zip(cases, common.pmap(one, list(enumerate(cases)))):
        ctx.count(("memcheck", label, hashlib.sha1("\n".join(L).encode()).hexdigest()))
        ctx.bump("memcheck:" + label)
        undef = [l for l in out.splitlines() if " undef block=" in l]
        if undef:
            ctx.fail("oracle", "bytes that memcheck considers uninitialised were written to the device", {"generator": label, "meta": meta, "script": L},
                     expected="every byte written is defined by the calls, their arguments and the clock",
                     actual={"first_writes": undef[:4], "valgrind": [l for l in err.splitlines() if " at 0x" in l or " by 0x" in l][:6]})
        elif rc not in (0,):
            if rc == 97:
                # other memcheck errors (branch on uninitialised value ...) belong to C09; note them
                ctx.notes.append("memcheck reported errors other than undefined device writes in a %s run (judged by C09)" % label)
            else:
                ctx.fail("crash", "harness exit %d under valgrind" % rc, {"generator": label, "meta": meta, "script": L}, actual=out.splitlines()[-2:])


def run(ctx):
    proof = common.proof_status(ctx)
    rng = ctx.rng
    mc = []
    # formatting calls
    for flav in ([0, 1, 5, 7] if ctx.tier == "quick" else list(range(8))):
        for kind in ("DD", "HD", "HF:4100", "HF:%d" % (26 * 4064 + 7), "PART:130:2:16:2,60;62,66"):
            if ctx.tier == "quick" and kind.startswith("HF:1") and flav != 1:
                continue
            L = gen.dev_create(kind, flav, b"name") + ["mountdev 0", "mount 0 0", "mkdir - %s" % hexs(b"d"), "open 0 - %s w" % hexs(b"f"), "write 0 3 3", "close 0", "umount", "umountdev"]
            run_twice(ctx, L, "format", {"device": kind, "flavour": flav})
            mc.append(("format", {"device": kind, "flavour": flav}, L))
            # the unoptimised build too: an optimising compiler may overlay an uninitialised local with a zeroed one
            run_twice(ctx, L, "format", {"device": kind, "flavour": flav}, variant="adfh-vg")
            if len(ctx.failures) > 5:
                break
    # operation histories
    n = 10 if ctx.tier == "quick" else 200
    for i in range(n):
        if len(ctx.failures) > 5:
            break
        L, first, nb, meta = c01.builders(ctx)[i % 30][1](ctx)
        run_twice(ctx, L, "file-history", meta, variant="adfh" if i % 2 else "adfh-vg")
        if len(L) < 150:
            mc.append(("file-history", meta, L))
    for i in range(6 if ctx.tier == "quick" else 150):
        if len(ctx.failures) > 5:
            break
        L, first, nb, meta = c02.ns_history(ctx)
        run_twice(ctx, L, "namespace-history", meta)
    for i in range(6 if ctx.tier == "quick" else 150):
        if len(ctx.failures) > 5:
            break
        L, first, nb, meta = c07.cache_history(ctx)
        run_twice(ctx, L, "cache-history", meta)
        if i < 4:
            mc.append(("cache-history", meta, L))
    if len(ctx.failures) <= 5:
        memcheck_pass(ctx, mc)
    rule = ("formatting of DD/HD floppies, hardfiles (incl. > 25 bitmap pages) and a partitioned disk for several flavour bytes, and file / namespace / directory-cache "
            "histories, in the -O1 and the -O0 build of the library, each run twice (thorough: three times) with different heap and stack pre-fill bytes and a pinned clock; the format calls and part of the histories again under valgrind memcheck with every buffer handed to the device checked for undefined bytes; distinct = distinct script")
    return common.finish(ctx, proof, rule, level="exploration",
                         assumptions=["memory obtained by the library comes from malloc (wrapped: pre-filled) or from the stack (pre-filled before each API call to a depth of 48 KiB)",
                                      "struct padding does not exist in the block structs (sizes proved in C03_block_sizes)"])


def replay(ctx, rep):
    print(rep.get("failure"))
    return 0

"""C08 Graceful exhaustion.
(i) real exhaustion: the volume is pre-filled leaving k in 0..5 free blocks, then every operation kind runs at several
alignments; (ii) forced exhaustion: the j-th allocation request of a call (and all later ones) fails, for every j, which
enumerates 'while allocating an extension block', 'after the extension block was allocated', 'while growing the cache', ...
After each episode: the return value must reflect exactly what was stored (the reference model is replayed with the
accepted byte count), earlier files read back unchanged, the image decodes (structure + exact free-space accounting),
and after deleting entries the space can be filled again to the same capacity."""
from . import common, gen, hist, histcheck
from .common import hexs


FILLERS = {hexs(b"filler"), hexs(b"filler2")}


def spec_patch(L, res):
    """replace space-limited calls by what the implementation says it stored"""
    out = []
    tol = set()
    nospace = False
    fillers = set()
    for i, cmd in enumerate(L, 1):
        t = cmd.split()
        r = (res.get(i) or ["?"])[-1]
        d = common.kv(r)[1]
        if t and t[0] == "allocfail":
            nospace = t[1] != "0"
        if t and t[0] == "nospace":
            nospace = t[1] != "0"
            out.append("#")
            continue
        # the filler files are not replayed in the reference model (hundreds of kilobytes): their handles and names are skipped
        if t and t[0] == "open" and t[3] in FILLERS:
            fillers.add(t[1])
            out.append("#")
            continue
        if t and t[0] in ("write", "close", "stat", "trunc") and t[1] in fillers:
            if t[0] == "close":
                fillers.discard(t[1])
            out.append("#")
            continue
        if t and t[0] == "rm" and t[2] in FILLERS:
            out.append("#")
            continue
        if nospace and t:
            if t[0] == "write" and r.startswith("ok") and int(d.get("n", t[3])) < int(t[3]):
                out.append("write %s %s %s" % (t[1], t[2], d["n"]))
                continue
            if t[0] in ("mkdir",) and r.startswith("err"):
                out.append("#")
                continue
            if t[0] == "open" and r.startswith("err") and "w" in t[4]:
                out.append("#")
                continue
            if t[0] == "trunc" and r.startswith("err") and "size" in d:
                out.append("trunc %s %s" % (t[1], d["size"]))
                tol.add(i)
                continue
            if t[0] in ("comment", "mv") and r.startswith("err"):
                out.append("#")      # a longer cache record may need a new cache block
                continue
        out.append(cmd)
    return out, tol


def fill_to(L, free_left, bs, flav):
    """lines that fill the volume with a big file + small files until `free_left` blocks remain (computed by the caller from `free`)"""
    return L


def real_exhaustion(ctx):
    rng = ctx.rng
    flav = rng.choice(gen.FLAVOURS)
    bs = 512 if flav & 1 else 488
    L = gen.dev_create("DD", flav) + ["mountdev 0", "mount 0 0",
        "open 0 - %s w" % hexs(b"keep1"), "write 0 21 %d" % (3 * bs + 5), "close 0",
        "mkdir - %s" % hexs(b"kd"), "open 0 %s %s w" % (hexs(b"kd"), hexs(b"keep2")), "write 0 22 %d" % (75 * bs), "close 0"]
    # free blocks on an empty DD floppy: 1756 (1755 with dircache); used so far: hdr+4 data, dir(+cache), hdr+75 data+1 ext
    k = rng.choice([0, 1, 2, 3, 4, 5])
    # a filler file whose size leaves about k blocks: written with a huge request, the library stores what fits
    L += ["open 1 - %s w" % hexs(b"filler"), "nospace 1", "write 1 23 %d" % (2000 * bs), "nospace 0", "close 1", "free"]
    # give back exactly k data blocks (k > 0): shrink the filler by k blocks (no extension boundary games: stay inside one ext block when possible)
    if k:
        L += ["open 1 - %s rw" % hexs(b"filler"), "stat 1"]
    mark = len(L)
    return L, k, flav, bs


def exhaustion_history(ctx):
    rng = ctx.rng
    L, k, flav, bs = real_exhaustion(ctx)
    # we do not know the filler size statically: the shrink uses a relative truncate emulated by two steps in the harness:
    # use `trunc` to a size computed from the capacity: total data blocks that fit = measured at run time is not available to the
    # script, so instead free space is made by deleting a sacrificial file of exactly k data blocks created BEFORE the filler.
    L = gen.dev_create("DD", flav) + ["mountdev 0", "mount 0 0",
        "open 0 - %s w" % hexs(b"keep1"), "write 0 21 %d" % (3 * bs + 5), "close 0",
        "mkdir - %s" % hexs(b"kd"), "open 0 %s %s w" % (hexs(b"kd"), hexs(b"keep2")), "write 0 22 %d" % (75 * bs), "close 0"]
    if k:
        # sacrificial file: header + (k-1) data blocks = k blocks (k = 1: empty file)
        L += ["open 0 - %s w" % hexs(b"sacr"), "write 0 24 %d" % ((k - 1) * bs), "close 0"]
    L += ["open 1 - %s w" % hexs(b"filler"), "nospace 1", "write 1 23 %d" % (2000 * bs), "nospace 0", "close 1", "free"]
    if k:
        L += ["rm - %s" % hexs(b"sacr"), "free"]
    L += ["dump $W/img1", "spectree", "nospace 1"]
    # the episode: one or two operations that need blocks
    ops = []
    for _ in range(rng.randint(1, 3)):
        c = rng.random()
        if c < 0.3:
            ops += ["open 2 - %s w" % hexs(b"newf%d" % rng.randrange(3)), "write 2 31 %d" % rng.choice([1, bs - 1, bs, bs + 1, 3 * bs, 80 * bs]), "close 2"]
        elif c < 0.45:
            ops += ["mkdir - %s" % hexs(b"newd%d" % rng.randrange(3))]
        elif c < 0.7:
            ops += ["open 2 - %s rw" % hexs(b"keep1"), "seek 2 %d" % (3 * bs + 5), "write 2 32 %d" % rng.choice([1, bs - 5, bs, 2 * bs, 70 * bs]), "close 2"]
        elif c < 0.85:
            ops += ["open 2 %s %s rw" % (hexs(b"kd"), hexs(b"keep2")), "trunc 2 %d" % ((75 + rng.choice([1, 68, 69, 70, 80])) * bs), "close 2"]
        else:
            ops += ["comment - %s %s" % (hexs(b"keep1"), hexs(b"c" * 70)), "mkdir %s %s" % (hexs(b"kd"), hexs(b"in%d" % rng.randrange(2)))]
    L += ops + ["nospace 0", "free", "list - 0 0", "dump $W/img2", "spectree",
                "umount", "umountdev", "mountdev 0", "mount 0 0",
                "open 3 - %s r" % hexs(b"keep1"), "read 3 %d" % (200 * bs), "close 3",
                "open 3 %s %s r" % (hexs(b"kd"), hexs(b"keep2")), "read 3 %d" % (200 * bs), "close 3",
                # delete the filler and fill again to the same capacity
                "rm - %s" % hexs(b"filler"), "free",
                "open 1 - %s w" % hexs(b"filler2"), "nospace 1", "write 1 23 %d" % (2000 * bs), "nospace 0", "close 1", "free",
                "dump $W/img3", "spectree", "umount", "umountdev"]
    return L, 0, 1760, {"flavour": flav, "free_before_episode": k, "episode": ops}


def boundary_history(ctx):
    """exhaustion exactly where a growing file needs an extension block and a data block together (every 72 data blocks):
    the volume is filled completely, then sacrificial files of known size are deleted so that exactly 73 + f blocks are
    free (header + 72 data blocks fit, f = 0..3 blocks remain for the pair request)"""
    rng = ctx.rng
    flav = rng.choice(gen.FLAVOURS)
    bs = 512 if flav & 1 else 488
    f = rng.choice([0, 1, 1, 2, 3])
    L = gen.dev_create("DD", flav) + ["mountdev 0", "mount 0 0",
        "open 0 - %s w" % hexs(b"keep1"), "write 0 21 %d" % (3 * bs + 5), "close 0",
        "mkdir - %s" % hexs(b"kd"), "open 0 %s %s w" % (hexs(b"kd"), hexs(b"keep2")), "write 0 22 %d" % (75 * bs), "close 0"]
    variant = rng.choice(["new-file-one-write", "new-file-chunks", "append-after-close", "second-boundary"])
    # sacrificial files: s1 = header + 72 data blocks (73 blocks, no extension block), s2 = f blocks
    if variant == "second-boundary":
        # keep3 has 143 data blocks (1 ext); appending 1 block completes 144, the next needs ext + data
        L += ["open 0 - %s w" % hexs(b"keep3"), "write 0 25 %d" % (143 * bs), "close 0"]
        L += ["open 0 - %s w" % hexs(b"sacr1"), "write 0 24 0", "close 0"]                                 # 1 block
    else:
        L += ["open 0 - %s w" % hexs(b"sacr1"), "write 0 24 %d" % (72 * bs), "close 0"]                    # 73 blocks
    if f:
        L += ["open 0 - %s w" % hexs(b"sacr2"), "write 0 26 %d" % ((f - 1) * bs), "close 0"]
    # an empty target created before the fill, so that the episode itself allocates data/extension blocks only
    L += ["open 0 - %s w" % hexs(b"target"), "close 0"]
    L += ["open 1 - %s w" % hexs(b"filler"), "nospace 1", "write 1 23 %d" % (2000 * bs), "nospace 0", "close 1", "free",
          "rm - %s" % hexs(b"sacr1")] + (["rm - %s" % hexs(b"sacr2")] if f else []) + ["free", "dump $W/img1", "spectree", "nospace 1"]
    if variant == "new-file-one-write":
        # the target header exists already: 73 + f free blocks = 72 data + (1 + f)
        ops = ["open 2 - %s rw" % hexs(b"target"), "write 2 31 %d" % ((72 + rng.choice([1, 2, 5, 8])) * bs), "stat 2", "close 2"]
    elif variant == "new-file-chunks":
        ops = ["open 2 - %s rw" % hexs(b"target")] + ["write 2 %d %d" % (40 + i, bs * 8) for i in range(10)] + ["stat 2", "close 2"]
    elif variant == "append-after-close":
        ops = ["open 2 - %s rw" % hexs(b"target"), "write 2 31 %d" % (72 * bs), "close 2",
               "open 2 - %s rw" % hexs(b"target"), "seek 2 %d" % (72 * bs), "write 2 33 %d" % rng.choice([1, bs, 3 * bs]), "stat 2", "close 2"]
    else:
        ops = ["open 2 - %s rw" % hexs(b"keep3"), "seek 2 %d" % (143 * bs), "write 2 34 %d" % rng.choice([bs + 1, 2 * bs, 4 * bs]), "stat 2", "close 2"]
    L += ops + ["nospace 0", "free", "list - 0 0", "dump $W/img2", "spectree",
                # the last free blocks must still be usable: one-block files until the volume is full, then remount
                "nospace 1"] + ["open 3 - %s w" % hexs(b"tiny%d" % i) for i in range(1)] + ["close 3", "nospace 0", "free",
                "umount", "umountdev", "mountdev 0", "mount 0 0", "free",
                "open 3 - %s r" % hexs(b"keep1"), "read 3 %d" % (200 * bs), "close 3",
                "open 3 %s %s r" % (hexs(b"kd"), hexs(b"keep2")), "read 3 %d" % (200 * bs), "close 3",
                "open 3 - %s r" % hexs(b"target"), "read 3 %d" % (200 * bs), "close 3",
                "rm - %s" % hexs(b"filler"), "free",
                "open 1 - %s w" % hexs(b"filler2"), "nospace 1", "write 1 23 %d" % (2000 * bs), "nospace 0", "close 1", "free",
                "dump $W/img3", "spectree", "umount", "umountdev"]
    return L, 0, 1760, {"flavour": flav, "free_after_72_blocks": f, "variant": variant, "episode": ops}


def short_write_then(ctx):
    """a write that comes back short because the volume is full, followed - on the same handle - by a seek, a read, a truncate or
    nothing, then close: what the write reported as stored must be there afterwards (the last block it filled is still only
    buffered when the allocation of the next one fails)"""
    rng = ctx.rng
    flav = rng.choice(gen.FLAVOURS)
    bs = 512 if flav & 1 else 488
    k = rng.choice([5, 20, 40, 75, 80])       # free blocks left for the file under test (header included)
    L = gen.dev_create("DD", flav) + ["mountdev 0", "mount 0 0",
        "open 0 - %s w" % hexs(b"sacr"), "write 0 24 %d" % ((k - 1 - (1 if k > 73 else 0)) * bs), "close 0",
        "open 1 - %s w" % hexs(b"filler"), "nospace 1", "write 1 23 %d" % (2000 * bs), "nospace 0", "close 1",
        "rm - %s" % hexs(b"sacr"), "free", "nospace 1",
        "open 2 - %s w" % hexs(b"target")]
    chunks = rng.choice([[(k + 30) * bs], [3 * bs] * ((k + 30) // 3), [(k - 2) * bs, 7 * bs], [bs // 2] * (2 * k + 20)])
    for i, c in enumerate(chunks):
        L += ["write 2 %d %d" % (31 + i % 50, c)]
    after = rng.choice(["seek0", "seekmid", "seek-eof", "trunc-same", "trunc-less", "flush", "none", "seek0-write"])
    L += ["stat 2"]
    if after == "seek0":
        L += ["seek 2 0"]
    elif after == "seekmid":
        L += ["seek 2 %d" % (2 * bs + 5)]
    elif after == "seek-eof":
        L += ["seek 2 %d" % (2000 * bs)]
    elif after == "trunc-less":
        L += ["trunc 2 %d" % (3 * bs + 1)]
    elif after == "flush":
        L += ["flush 2"]
    elif after == "seek0-write":
        L += ["seek 2 0", "write 2 99 10"]
    L += ["close 2", "nospace 0", "free", "dump $W/img1", "spectree", "open 3 - %s r" % hexs(b"target"), "read 3 %d" % (400 * bs), "close 3",
          "umount", "umountdev", "mountdev 0", "mount 0 0", "open 3 - %s r" % hexs(b"target"), "read 3 %d" % (400 * bs), "close 3", "free", "umount", "umountdev"]
    return L, 0, 1760, {"flavour": flav, "free_blocks_for_the_file": k, "chunks": len(chunks), "then": after}


FORCED_KINDS = ["append-across-72", "create-file", "mkdir-cache-grows", "mkdir-cache-fits", "comment-then-mkdir", "create-file-cache-grows", "rename-longer-cache-grows", "comment-cache-grows"]


def forced_history(ctx, _state={"i": 0}):
    """forced exhaustion, enumerated: (kind of call) x (allocation request j of the call and all later ones fail)"""
    rng = ctx.rng
    i = _state["i"]
    _state["i"] += 1
    kind = FORCED_KINDS[i % len(FORCED_KINDS)]
    j = 1 + (i // len(FORCED_KINDS)) % 4
    flav = rng.choice(gen.FLAVOURS if "cache" not in kind else [4, 5])
    bs = 512 if flav & 1 else 488
    L = gen.dev_create("DD", flav) + ["mountdev 0", "mount 0 0",
        "open 0 - %s w" % hexs(b"keep1"), "write 0 21 %d" % (71 * bs + 5), "close 0",
        "mkdir - %s" % hexs(b"kd")]
    kd = hexs(b"kd")
    if flav & 4:
        # 14-byte names: 40-byte records, 12 per 488-byte record area: with 12 entries the block of kd is full, the next record needs a new block
        for k in range(12 if "grows" in kind else 9):
            L += ["mkdir %s %s" % (kd, hexs(b"e%02d_sixteen_ch" % k))]
    L += ["free", "dump $W/img1", "spectree"]
    if kind == "append-across-72":
        ep = ["open 2 - %s rw" % hexs(b"keep1"), "seek 2 %d" % (71 * bs + 5), "allocfail %d" % j, "write 2 32 %d" % (3 * bs), "allocfail 0", "close 2"]
    elif kind == "create-file":
        ep = ["allocfail %d" % j, "open 2 - %s w" % hexs(b"newf"), "allocfail 0", "write 2 5 10", "close 2"]
    elif kind in ("mkdir-cache-grows", "mkdir-cache-fits"):
        ep = ["allocfail %d" % j, "mkdir %s %s" % (kd, hexs(b"e20_sixteen_ch")), "allocfail 0"]
    elif kind == "create-file-cache-grows":
        ep = ["allocfail %d" % j, "open 2 %s %s w" % (kd, hexs(b"e21_sixteen_ch")), "allocfail 0", "write 2 5 10", "close 2"]
    elif kind == "comment-cache-grows":
        ep = ["allocfail %d" % j, "comment %s %s %s" % (kd, hexs(b"e04_sixteen_ch"), hexs(b"a comment that makes the record outgrow its block")), "allocfail 0"]
    elif kind == "rename-longer-cache-grows":
        ep = ["allocfail %d" % j, "mv %s %s %s %s" % (kd, hexs(b"e03_sixteen_ch"), kd, hexs(b"e03_a_name_of_thirty_characters")), "allocfail 0"]
    else:
        ep = ["allocfail %d" % j, "comment - %s %s" % (hexs(b"keep1"), hexs(b"k" * 79)), "allocfail 0",
              "allocfail %d" % j, "mkdir %s %s" % (kd, hexs(b"e22_sixteen_ch")), "allocfail 0"]
    # in the same session (the in-memory bitmap is what the failed call may have left wrong): allocate again, which also writes the bitmap
    follow = ["mkdir - %s" % hexs(b"followup"), "open 4 - %s w" % hexs(b"follow2"), "write 4 9 %d" % (2 * bs + 1), "close 4", "mkdir %s %s" % (kd, hexs(b"fw"))]
    L += ep + ["free", "list - 0 0", "list %s 0 0" % kd, "list %s 1 0" % kd, "dump $W/img2", "spectree"] + follow + ["free", "list %s 1 0" % kd, "dump $W/img2b", "spectree", "umount", "umountdev", "mountdev 0", "mount 0 0",
               "open 3 - %s r" % hexs(b"keep1"), "read 3 %d" % (200 * bs), "close 3", "list %s 1 0" % kd,
               "mkdir %s %s" % (kd, hexs(b"after")), "free", "dump $W/img3", "spectree", "umount", "umountdev"]
    return L, 0, 1760, {"flavour": flav, "fail_from_request": j, "kind": kind, "episode": ep}


def run(ctx):
    proof = common.proof_status(ctx)
    # call-level correspondence of the handle model the C08_refused_write / C08_short_write theorems are about (histories with forced
    # refusals and nearly full volumes are part of its generator)
    from . import fileiocorr
    fileiocorr.run(ctx, 24 if ctx.tier == "quick" else 800)
    rng = ctx.rng
    first_fail = None
    others = {}
    gens = ([("real-exhaustion", exhaustion_history)] * (8 if ctx.tier == "quick" else 300) +
            [("extension-boundary-exhaustion", boundary_history)] * (12 if ctx.tier == "quick" else 300) +
            [("short-write-then", short_write_then)] * (16 if ctx.tier == "quick" else 300) +
            [("forced-exhaustion", forced_history)] * (64 if ctx.tier == "quick" else 960))
    built = [(label,) + tuple(fn(ctx)) for (label, fn) in gens]
    results = common.pmap(lambda b: hist.run_history(ctx, b[1], first=b[2], nblocks=b[3], spec_patch=spec_patch, ignore_names=FILLERS), built)
    for (label, L, first, nb, meta), r in zip(built, results):
        ctx.count((label, hash(tuple(L))))
        ctx.bump("history:" + label)
        nshort = 0
        for i, cmd in enumerate(L, 1):
            t = cmd.split()
            rr = (r["results"].get(i) or ["?"])[-1]
            if t and t[0] == "write" and rr.startswith("ok") and int(common.kv(rr)[1].get("n", t[3])) < int(t[3]):
                nshort += 1
            if t and t[0] in ("mkdir", "open") and rr.startswith("err"):
                ctx.bump("failed_creates")
        ctx.bump("short_writes", nshort)
        if len(ctx.samples) < 3:
            ctx.sample({"generator": label, "meta": meta, "lines": len(L)})
        # refill capacity: the last two `free` values around the refill must show the same remaining space as after the first fill
        frees = [int(common.kv((r["results"].get(i) or ["?"])[-1])[1].get("free", -1)) for i, c in enumerate(L, 1) if c == "free"]
        for (p, what, det) in r["findings"]:
            # in exhaustion runs every structural, accounting or content problem is a C08 problem
            kind = "crash" if p == "CRASH" else ("corr" if p == "TOOL" else "oracle")
            ctx.fail(kind, "%s [%s]" % (what, p), {"generator": label, "meta": meta, "detail": det, "script": L},
                     expected="failure or exact short count; earlier data unchanged; valid volume with exact accounting", actual=det)
            if first_fail is None and kind == "oracle":
                first_fail = (L, first, nb, p, what)
        if label == "real-exhaustion" and len(frees) >= 2 and r["rc"] == 0 and not r["findings"]:
            if frees[-1] > max(0, frees[0]) + 1:
                ctx.fail("oracle", "after deleting the filler the volume cannot be filled to the same capacity again",
                         {"generator": label, "meta": meta, "script": L, "free_values": frees}, expected="about %d blocks left" % frees[0], actual=frees[-1])
        if len(ctx.failures) >= 5:
            break
    if first_fail and ctx.tier == "quick":
        L, first, nb, p, what = first_fail
        try:
            M = L   # (exhaustion histories are not minimised: removing lines changes the fill level)
            ctx.failures[0]["input"]["minimised_script"] = M
        except Exception:
            pass
    rule = ("short write on a full volume followed on the same handle by seek / truncate / flush / nothing, then close and read back; extension-boundary exhaustion: exactly 73+f blocks free (f = 0..3) when a file grows through a multiple of 72 data blocks (one write, chunks, append after close, second boundary); real exhaustion: DD floppy pre-filled leaving k = 0..5 free blocks, then 1-3 block-hungry operations (create+write at several alignments, mkdir, append across "
            "the 72-block extension boundary, grow by truncate, longer comment / entry in a nearly full cache block); forced exhaustion: allocation request j = 1..4 of the call "
            "and all later ones fail; all six flavours; checked: result vs model replayed with the accepted byte count, bystander files, decoder (structure + accounting) "
            "before/after/after remount, refill to same capacity; distinct = distinct script")
    return common.finish(ctx, proof, rule, level="exploration",
                         assumptions=["a call is allowed to fail for lack of space only inside the marked exhaustion window of the script",
                                      "host malloc never fails"])


def replay(ctx, rep):
    f = rep.get("failure", {})
    L = (f.get("input") or {}).get("minimised_script") or (f.get("input") or {}).get("script")
    if L:
        for x in hist.run_history(ctx, L, spec_patch=spec_patch, ignore_names=FILLERS)["findings"]:
            print(x)
    return 0

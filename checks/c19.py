"""C19 Device I/O failures are contained.
For every operation of generated histories, one run per device read / write the operation performs, with exactly that I/O
failing (the failing read leaves a garbage pattern in the buffer), plus random multi-fault patterns.  Judged: no crash;
every read call returns a prefix of the true bytes (true = the reference model's bytes at that offset) or an error; after the
fault clears, files that were not being modified read back correctly through new handles and after remount."""
import os, re
from . import common, gen, hist
from .common import hexs

VARIANTS = ("plain", "asan", "ofsseek")


def base_history(ctx, flav):
    rng = ctx.rng
    bs = 512 if flav & 1 else 488
    A, B, D = hexs(b"fileA"), hexs(b"fileB"), hexs(b"dirD")
    L = gen.dev_create("DD", flav) + ["mountdev 0", "mount 0 0",
        "open 0 - %s w" % A, "write 0 7 %d" % (220 * bs + 100), "close 0",
        "mkdir - %s" % D, "open 0 %s %s w" % (D, B), "write 0 8 %d" % (3 * bs + 9), "close 0"]
    return L, bs


def target_ops(ctx, bs):
    A, B, D = hexs(b"fileA"), hexs(b"fileB"), hexs(b"dirD")
    rng = ctx.rng
    reads = [
        ["open 1 - %s r" % A, "read 1 300 hex", "seek 1 %d" % (bs + 5), "read 1 20 hex", "seek 1 %d" % (72 * bs - 3), "read 1 40 hex", "seek 1 %d" % (74 * bs), "read 1 %d hex" % (2 * bs), "close 1"],
        ["open 1 %s %s r" % (D, B), "read 1 %d hex" % (4 * bs), "seek 1 0", "read 1 10 hex", "close 1"],
        ["list - 0 1", "lookup %s %s" % (D, B), "list - 1 0"],
        ["open 1 - %s rw" % A, "seek 1 %d" % (73 * bs + 1), "read 1 30 hex", "seek 1 10", "read 1 %d hex" % (bs + 20), "close 1"],
        # sequential reads through the 72-block edge into the extension-block area: a failed transfer is followed by more reads on the same handle
        ["open 1 - %s r" % A, "seek 1 %d" % (70 * bs)] + ["read 1 %d hex" % bs] * 6 + ["close 1"],
        ["open 1 - %s r" % A, "seek 1 %d" % (71 * bs + 100)] + ["read 1 %d hex" % (bs + bs // 2 + 7)] * 3 + ["close 1"],
        ["open 1 - %s r" % A, "read 1 %d hex" % (73 * bs), "read 1 %d hex" % bs, "read 1 %d hex" % bs, "close 1"],
        # seeks that walk the extension chain: into the second extension block, back into the first, to its last slot
        ["open 1 - %s r" % A, "seek 1 %d" % (146 * bs + 7), "read 1 600 hex", "seek 1 %d" % (80 * bs), "read 1 100 hex", "seek 1 %d" % (143 * bs + 500), "read 1 %d hex" % bs, "close 1"],
        ["open 1 - %s rw" % A, "seek 1 %d" % (149 * bs), "read 1 %d hex" % bs, "seek 1 %d" % (144 * bs - 1), "read 1 10 hex", "close 1"],
        # the third extension block: the walk passes two others first
        ["open 1 - %s r" % A, "seek 1 %d" % (218 * bs + 3), "read 1 700 hex", "seek 1 %d" % (216 * bs), "read 1 20 hex", "seek 1 %d" % (100 * bs), "read 1 20 hex", "close 1"],
    ]
    writes = [
        ["open 1 - %s rw" % A, "seek 1 %d" % (bs - 10), "write 1 9 40", "seek 1 0", "read 1 60 hex", "close 1"],
        ["open 1 - %s w" % hexs(b"newfile"), "write 1 10 %d" % (2 * bs + 1), "flush 1", "close 1"],
        ["mkdir - %s" % hexs(b"newdir"), "rm %s %s" % (D, B), "mv - %s %s %s" % (A, D, hexs(b"moved"))],
        ["open 1 - %s rw" % A, "trunc 1 %d" % (10 * bs), "close 1", "comment - %s %s" % (A, hexs(b"hello"))],
    ]
    return reads, writes


def count_ios(ctx, L, start, nops):
    """baseline run with counters around each target op"""
    M = list(L[:start])
    for i in range(nops):
        M += ["counters", L[start + i]]
    M += ["counters"]
    rc, out, err, wd = common.run_script(ctx, "\n".join(M) + "\n")
    res = common.parse_results(out)
    cnt = []
    prev = None
    for ln in sorted(res):
        for r in res[ln]:
            if r.startswith("ok reads="):
                d = common.kv(r)[1]
                cur = (int(d["reads"]), int(d["writes"]))
                if prev is not None:
                    cnt.append((cur[0] - prev[0], cur[1] - prev[1]))
                prev = cur
    return cnt


def expected(ctx, L):
    d = os.path.join(ctx.work, "c19spec")
    os.makedirs(d, exist_ok=True)
    sp = os.path.join(d, "script")
    open(sp, "w").write("\n".join(L) + "\n")
    import subprocess
    r = subprocess.run([ctx.ocaml("adfm"), "spec", sp], stdout=subprocess.PIPE, text=True, preexec_fn=common.big_stack)
    out = {}
    for l in r.stdout.splitlines():
        m = re.match(r"^(\d+) (.*)$", l)
        if m:
            out[int(m.group(1))] = m.group(2)
    return out


def seek_then_modify(ctx):
    """a seek that is hit by ONE transient device read failure and still reports success (on OFS: through the fallback walk along the
    data blocks) must leave a handle that is as good as the fault-free one: the file is then modified at that position - appended to at the
    end, overwritten inside - closed, and read back through a new handle; everything must equal the fault-free run of the same calls.
    Sizes sit at block and table edges (size = k*bs + 1: the walk to size - 1 ends exactly at a block boundary)."""
    rng = ctx.rng
    F = hexs(b"seekfile")
    flavs = [0, 4, 1] if ctx.tier == "quick" else gen.FLAVOURS
    for flav in flavs:
        bs = 512 if flav & 1 else 488
        # (144 blocks on FFS: a write after a FAILED seek to the end ran into a SIGSEGV before adfFileWrite refused such a handle)
        sizes = ([bs + 1, 73 * bs + 1, 74 * bs] + ([144 * bs] if flav == 1 else [])) if ctx.tier == "quick" else \
                [k * bs + d for k in (1, 2, 71, 72, 73, 74, 144, 145) for d in (0, 1, 2, bs - 1)]
        for size in sizes:
            for (target, what) in ((size + 7, "append at the end"), (size - 1, "overwrite the last byte"), ((size // bs) * bs, "overwrite at the last block boundary")):
                if target < 0:
                    continue
                base = gen.dev_create("DD", flav) + ["mountdev 0", "mount 0 0", "open 0 - %s w" % F, "write 0 7 %d" % size, "close 0"]
                g = ["open 1 - %s rw" % F, "seek 1 %d" % target, "write 1 9 3", "close 1", "open 5 - %s r" % F, "read 5 %d" % (size + 20), "close 5"]
                L0 = base + g + ["umount", "umountdev"]
                ios = count_ios(ctx, L0, len(base), 2)
                rc0, out0, err0, wd0 = common.run_script(ctx, "\n".join(L0) + "\n")
                res0 = common.parse_results(out0)
                want = (res0.get(len(base) + 6) or ["?"])[-1]
                wseek = (res0.get(len(base) + 2) or ["?"])[-1]
                nreads = ios[1][0] if len(ios) > 1 else 0
                jobs = []
                for k in range(1, nreads + 1):
                    L = base + [g[0], "fault rd %d" % k, g[1], "fault clear"] + g[2:] + ["umount", "umountdev"]
                    jobs.append((k, L))

                def one(job):
                    k, L = job
                    rc, out, err, wd = common.run_script(ctx, "\n".join(L) + "\n", timeout=120)
                    import shutil
                    shutil.rmtree(wd, ignore_errors=True)
                    return rc, out
                for (k, L), (rc, out) in zip(jobs, common.pmap(one, jobs)):
                    res = common.parse_results(out)
                    ctx.count(("seek-then-modify", flav, size, target, k))
                    ctx.bump("fault:seek-then-modify")
                    inp = {"flavour": flav, "size": size, "seek_target": target, "then": what, "fault": "read #%d of the seek call (transient)" % k, "script": L}
                    if rc != 0:
                        ctx.fail("crash", "crash / invalid access (exit %d) after an injected device read failure during a seek" % rc, inp, actual=out[-2:])
                        continue
                    sk = (res.get(len(base) + 3) or ["?"])[-1]
                    got = (res.get(len(base) + 8) or ["?"])[-1]
                    if not sk.startswith("ok"):
                        ctx.bump("fault:seek-then-modify:seek-refused")
                        continue          # the seek reported the failure: what the caller does then is its business
                    if common.kv(sk)[1] != common.kv(wseek)[1]:
                        ctx.fail("oracle", "a seek hit by a transient read failure reports success with another position / size than the fault-free seek", inp, expected=wseek, actual=sk)
                        continue
                    if common.kv(got)[1] != common.kv(want)[1]:
                        ctx.fail("oracle", "after a seek that reported success under a transient device read failure, modifying the file at that position (%s) and reading it "
                                           "back gives other content than the fault-free run: data that was not being modified is not read back correctly" % what,
                                 inp, expected=want, actual=got)
                if len(ctx.failures) > 6:
                    return


def burst_and_retry(ctx):
    """(a) a burst: TWO consecutive device reads of a seek call fail, then the device is healthy again - the table-driven seek fails, and so does
    the first step of the OFS fallback; a seek that still reports success must leave the position it reports: the read after it returns the true
    bytes.  (b) retry: a write that came back short because the read of the next block failed is retried by the caller (the rest of the bytes,
    no seek in between), or - if the library refuses the retry - after a seek to the reported position; the file read back through a new handle
    must be the fault-free result of writing the same bytes at the same positions."""
    rng = ctx.rng
    F = hexs(b"burstfile")
    for flav in ([0, 4, 1] if ctx.tier == "quick" else gen.FLAVOURS):
        bs = 512 if flav & 1 else 488
        size = 100 * bs
        base = gen.dev_create("DD", flav) + ["mountdev 0", "mount 0 0", "open 0 - %s w" % F, "write 0 7 %d" % size, "close 0"]
        # true content
        Lt = base + ["open 5 - %s r" % F] + ["read 5 4096 hex"] * (size // 4096 + 1) + ["close 5"]
        et = expected(ctx, Lt)
        true = b""
        for k_ in range(len(base) + 2, len(base) + 2 + size // 4096 + 1):
            d_ = common.kv(et.get(k_, ""))[1].get("data", "-")
            true += bytes.fromhex(d_) if d_ not in ("-", "") else b""
        if len(true) != size:
            ctx.notes.append("burst_and_retry: reference content not computed (flavour %d)" % flav)
            continue
        # (a) bursts of two failing reads inside a seek
        targets = [bs + 24, 3 * bs, 72 * bs + 5, 75 * bs + 100, 10] if ctx.tier == "quick" else [bs + 24, 2 * bs - 1, 3 * bs, 71 * bs + 9, 72 * bs + 5, 73 * bs, 75 * bs + 100, 99 * bs + 7, 10]
        jobs = []
        for tg in targets:
            for k in (1, 2, 3):
                L = base + ["open 1 - %s r" % F, "read 1 %d" % (5 * bs), "fault rd %d 2" % k, "seek 1 %d" % tg, "fault clear", "read 1 16 hex", "close 1", "umount", "umountdev"]
                jobs.append((tg, k, L))

        def one(job):
            tg, k, L = job
            rc, out, err, wd = common.run_script(ctx, "\n".join(L) + "\n", timeout=120)
            import shutil
            shutil.rmtree(wd, ignore_errors=True)
            return rc, out
        for (tg, k, L), (rc, out) in zip(jobs, common.pmap(one, jobs)):
            res = common.parse_results(out)
            ctx.count(("burst-seek", flav, tg, k))
            ctx.bump("fault:burst-seek")
            inp = {"flavour": flav, "seek_target": tg, "fault": "reads #%d and #%d of the seek call fail, then the device is healthy" % (k, k + 1), "script": L}
            if rc != 0:
                ctx.fail("crash", "crash / invalid access (exit %d) after two injected device read failures during a seek" % rc, inp, actual=out[-2:])
                continue
            sk = (res.get(len(base) + 4) or ["?"])[-1]
            rd = (res.get(len(base) + 6) or ["?"])[-1]
            if not sk.startswith("ok") or not rd.startswith("ok"):
                continue
            d = common.kv(rd)[1]
            nn, pp = int(d.get("n", "0")), int(d.get("pos", "0"))
            if nn > 0 and d.get("data") and bytes.fromhex(d["data"]) != true[pp - nn:pp]:
                ctx.fail("oracle", "a read call returned bytes that differ from the file's true content at that offset (after a seek during which two device reads failed and which "
                                   "reported success)", dict(inp, offset=pp - nn, count=nn), expected=true[pp - nn:pp].hex(), actual=d["data"])
        # (b) a short write retried
        jobs = []
        for blk in ([3, 75, 80] if ctx.tier == "quick" else [1, 3, 71, 72, 73, 75, 80, 98]):
            p0 = (blk + 1) * bs - 10
            ref = base + ["open 1 - %s rw" % F, "seek 1 %d" % p0, "write 1 9 10", "write 1 10 10", "close 1", "open 5 - %s r" % F, "read 5 %d" % (size + 10), "close 5", "umount", "umountdev"]
            for k in (1, 2, 3, 4):
                L = base + ["open 1 - %s rw" % F, "seek 1 %d" % p0, "fault rd %d" % k, "write 1 9 20", "fault clear", "write 1 10 10", "seek 1 %d" % (p0 + 10), "write 1 10 10",
                            "close 1", "open 5 - %s r" % F, "read 5 %d" % (size + 10), "close 5", "umount", "umountdev"]
                jobs.append((blk, k, L, ref))
        refs = {}
        for (blk, k, L, ref) in jobs:
            if blk not in refs:
                rc0, out0, err0, wd0 = common.run_script(ctx, "\n".join(ref) + "\n")
                refs[blk] = (common.parse_results(out0).get(len(base) + 7) or ["?"])[-1]
        for (blk, k, L, ref), (rc, out) in zip(jobs, common.pmap(lambda j: one((j[0], j[1], j[2])), jobs)):
            res = common.parse_results(out)
            ctx.count(("write-retry", flav, blk, k))
            ctx.bump("fault:write-retry")
            inp = {"flavour": flav, "block": blk, "fault": "read #%d of the write call (transient)" % k, "script": L}
            if rc != 0:
                ctx.fail("crash", "crash / invalid access (exit %d) after an injected device read failure during a write" % rc, inp, actual=out[-2:])
                continue
            w1 = common.kv((res.get(len(base) + 4) or ["?"])[-1])[1]
            if w1.get("n") != "10":
                continue          # the fault did not hit the fetch of the next block (the write was complete, or stored nothing)
            w2 = common.kv((res.get(len(base) + 6) or ["?"])[-1])[1]
            w3 = common.kv((res.get(len(base) + 8) or ["?"])[-1])[1]
            # the caller's retry: accepted at once (w2.n = 10; the third write then repeats the same bytes at the same place), or refused (n = 0) and
            # accepted after the seek - either way the file must end up as if the 10 + 10 bytes had been written without a fault
            if w2.get("n") not in ("10", "0") or w3.get("n") != "10":
                ctx.fail("oracle", "the retry of a short write (after the fault cleared, with a seek to the reported position) is not accepted", inp, expected="n=10", actual=(w2, w3))
                continue
            got = (res.get(len(base) + 11) or ["?"])[-1]
            if common.kv(got)[1] != common.kv(refs[blk])[1]:
                ctx.fail("oracle", "after a write that came back short (the read of the next block failed once) and its retry, the file read back differs from the fault-free result of "
                                   "the same writes: data that was not being modified is not read back correctly", inp, expected=refs[blk], actual=got)
        if len(ctx.failures) > 6:
            return


def run(ctx):
    proof = common.proof_status(ctx)
    # call-level correspondence of the handle model the C19_read_returns_only_true_bytes theorem is about, with unreadable blocks in every
    # second history (the device refuses to read one to six blocks of the file during a read call)
    from . import fileiocorr
    fileiocorr.run(ctx, 24 if ctx.tier == "quick" else 800, fault_every=2)
    fileiocorr.run_ofsseek(ctx, 8 if ctx.tier == "quick" else 300)
    rng = ctx.rng
    flavs = gen.FLAVOURS
    A, B, D = hexs(b"fileA"), hexs(b"fileB"), hexs(b"dirD")
    for flav in flavs:
        base, bs = base_history(ctx, flav)
        reads, writes = target_ops(ctx, bs)
        verify = ["fault clear", "open 5 - %s r" % A, "read 5 %d" % (230 * bs), "close 5", "open 5 %s %s r" % (D, B), "read 5 %d" % (5 * bs), "close 5"]
        verify_after_remount = ["umount", "umountdev", "mountdev 0", "mount 0 0"] + verify[1:]
        # the true content of both files (reference model)
        Lt = base + ["open 5 - %s r" % A] + ["read 5 4096 hex"] * 29 + ["close 5", "open 5 %s %s r" % (D, B)] + ["read 5 4096 hex"] * 2 + ["close 5"]
        et = expected(ctx, Lt)

        def cat(first, count):
            out_ = b""
            for k_ in range(first, first + count):
                d_ = common.kv(et.get(k_, ""))[1].get("data", "-")
                out_ += bytes.fromhex(d_) if d_ not in ("-", "") else b""
            return out_
        true_bytes = {"A": cat(len(base) + 2, 29), "B": cat(len(base) + 33, 2)}
        if len(true_bytes["A"]) != 220 * bs + 100 or len(true_bytes["B"]) != 3 * bs + 9:
            ctx.notes.append("reference content of the test files could not be computed (flavour %d)" % flav)
        for kind, groups in (("read-side", reads), ("write-side", writes)):
            for g in groups:
                L0 = base + g
                ios = count_ios(ctx, L0, len(base), len(g))
                exp0 = expected(ctx, L0)
                # enumerate single faults
                plan = []
                for oi, (nr, nw) in enumerate(ios):
                    for k in range(1, nr + 1):
                        plan.append((oi, "rd", k))
                    for k in range(1, nw + 1):
                        plan.append((oi, "wr", k))
                jobs = []
                for (oi, rw, k) in plan:
                    L = base + g[:oi] + ["fault %s %d" % (rw, k), g[oi], "fault clear"] + g[oi + 1:]
                    touched_a = any(A in x for x in g) and kind == "write-side"
                    touched_b = any(B in x for x in g) and kind == "write-side"
                    L += ["fault clear"]
                    # the files the group itself wrote to: whatever they hold once the group is over, they must hold after a remount and after later
                    # allocations too (nothing modifies them any more) - handle 7, judged below for stability only
                    own = [("- %s" % A) if touched_a else None, ("%s %s" % (D, B)) if touched_b else None, ("- %s" % hexs(b"newfile")) if kind == "write-side" else None]
                    own = [o for o in own if o]
                    chk_own = [l for o in own for l in ("open 7 %s r" % o, "read 7 %d" % (230 * bs), "close 7")]
                    L += chk_own
                    vstart = len(L)
                    if not touched_a:
                        L += ["open 5 - %s r" % A, "read 5 %d" % (230 * bs), "close 5"]
                    if not touched_b:
                        L += ["open 5 %s %s r" % (D, B), "read 5 %d" % (5 * bs), "close 5"]
                    L += ["umount", "umountdev", "mountdev 0", "mount 0 0"]
                    if not touched_a:
                        L += ["open 5 - %s r" % A, "read 5 %d" % (230 * bs), "close 5"]
                    if not touched_b:
                        L += ["open 5 %s %s r" % (D, B), "read 5 %d" % (5 * bs), "close 5"]
                    L += chk_own
                    if kind == "write-side":
                        # ... and still after new allocations on the remounted volume (a bitmap left stale by the fault would hand their blocks out again)
                        L += ["open 6 - %s w" % hexs(b"later"), "write 6 13 %d" % (60 * bs), "close 6"]
                        if not touched_a:
                            L += ["open 5 - %s r" % A, "read 5 %d" % (230 * bs), "close 5"]
                        if not touched_b:
                            L += ["open 5 %s %s r" % (D, B), "read 5 %d" % (5 * bs), "close 5"]
                        L += chk_own
                    L += ["umount", "umountdev"]
                    variant = "adfh-asan" if (ctx.tier == "thorough" or rng.random() < 0.3) else "adfh"
                    jobs.append((oi, rw, k, L, vstart, variant))
                    if rw == "rd":
                        # the same fault on a device that leaves the caller's buffer untouched when a read fails (stale content
                        # instead of a recognisable pattern): both are devices "failing a block read"
                        jobs.append((oi, rw, k, ["garbage keep"] + L, vstart + 1, variant))

                def one(job):
                    oi, rw, k, L, vstart, variant = job
                    rc, out, err, wd = common.run_script(ctx, "\n".join(L) + "\n", variant=variant, timeout=120)
                    import shutil
                    shutil.rmtree(wd, ignore_errors=True)
                    return rc, out, err
                for (oi, rw, k, L, vstart, variant), (rc, out, err) in zip(jobs, common.pmap(one, jobs)):
                    res = common.parse_results(out)
                    if L[0] == "garbage keep":
                        res = {ln - 1: v for ln, v in res.items() if ln > 1}
                        L = L[1:]
                        vstart -= 1
                        ctx.bump("fault:stale-buffer-device")
                    ctx.count((flav, kind, tuple(g), oi, rw, k))
                    ctx.bump("fault:%s:%s" % (kind, rw))
                    inp = {"flavour": flav, "faulted_operation": g[oi], "fault": "%s #%d of that call" % ("read" if rw == "rd" else "write", k), "script": L}
                    if rc != 0:
                        ctx.fail("crash", "crash / invalid access / hang (exit %d) after an injected device %s failure" % (rc, "read" if rw == "rd" else "write"), inp,
                                 expected="error return", actual=(out[-2:], [l for l in err.splitlines() if "ERROR" in l or "SUMMARY" in l][:2]))
                        continue
                    # (2a) every read of the faulted run, on whichever handle state the fault left: the bytes delivered are the file's
                    #      true bytes at the offset the call started from (reported position minus delivered count)
                    if kind == "read-side" and true_bytes["A"]:
                        which = None
                        for j, cmd in enumerate(g):
                            if cmd.startswith("open 1"):
                                which = "A" if cmd.split()[2] == "-" and cmd.split()[3] == A else "B"
                            if not cmd.startswith("read") or which is None:
                                continue
                            lj = len(base) + j + 1 + (1 if j >= oi else 0) + (1 if j > oi else 0)
                            got = (res.get(lj) or ["?"])[-1]
                            if not got.startswith("ok"):
                                continue
                            dg = common.kv(got)[1]
                            nn, pp = int(dg.get("n", "0")), int(dg.get("pos", "0"))
                            if nn > 0 and dg.get("data"):
                                want = true_bytes[which][pp - nn: pp]
                                if bytes.fromhex(dg["data"]) != want:
                                    ctx.fail("oracle", "a read call returned bytes that differ from the file's true content at that offset (after an injected device read failure)",
                                             dict(inp, read_call=cmd, read_call_index=j, offset=pp - nn, count=nn),
                                             expected=want[:24].hex() + "...", actual=dg["data"][:48] + "...")
                                    break
                    # (2) read calls never return wrong bytes (read-side groups: the model's bytes are the truth)
                    if kind == "read-side":
                        # map lines of L to lines of L0: lines after the inserted 'fault' shift by +1 / +2
                        for j, cmd in enumerate(g):
                            if not cmd.startswith("read"):
                                continue
                            l0 = len(base) + j + 1
                            lj = len(base) + j + 1 + (1 if j >= oi else 0) + (1 if j > oi else 0)
                            got = (res.get(lj) or ["?"])[-1]
                            want = exp0.get(l0, "")
                            if not got.startswith("ok"):
                                continue
                            dg, dw = common.kv(got)[1], common.kv(want)[1]
                            gd = dg.get("data", "") if dg.get("n") != "0" else ""
                            wd_ = dw.get("data", "")
                            if gd and wd_ and wd_ != "-":
                                # the returned bytes must be the true bytes at the offset where the read started; a read that starts after an
                                # earlier short read starts at the position the earlier calls left, which we do not track exactly: compare as
                                # substring of the file's true content around the expected slice start
                                after_ok_seek = False
                                if j == oi + 1 and g[oi].startswith("seek"):
                                    # the faulted call was a seek that reported success: the read after it starts at the seek target
                                    sk = (res.get(len(base) + oi + 2) or ["?"])[-1]
                                    after_ok_seek = sk.startswith("ok") and common.kv(sk)[1].get("pos") == g[oi].split()[2]
                                if not wd_.startswith(gd) and (j == oi or after_ok_seek):
                                    ctx.fail("oracle", "a read call returned bytes that differ from the file's true content (device read failure injected)", inp,
                                             expected="a prefix of %s..." % wd_[:40], actual=gd[:80])
                    # (3) bystanders read back correctly once the fault is cleared (same session and after remount)
                    full = {"A": None, "B": None}
                    for ln in range(vstart + 1, len(L) + 1):
                        cmd = L[ln - 1]
                        if cmd.startswith("read 5"):
                            r_ = (res.get(ln) or ["?"])[-1]
                            which = "A" if L[ln - 2].startswith("open 5 - ") else "B"
                            key = common.kv(r_)[1].get("n", "?") + ":" + common.kv(r_)[1].get("fnv", "?")
                            truth = {"A": "%d" % (220 * bs + 100), "B": "%d" % (3 * bs + 9)}[which]
                            if not r_.startswith("ok") or common.kv(r_)[1].get("n") != truth:
                                ctx.fail("oracle", "a file that was not being modified cannot be read back after the fault cleared", inp, expected="n=%s" % truth, actual=r_)
                            elif full[which] is None:
                                full[which] = key
                            elif full[which] != key:
                                ctx.fail("oracle", "a bystander file reads differently after remount", inp, expected=full[which], actual=key)
                    # (4) the files the group wrote to: stable from the end of the group on (same session, after remount, after later allocations) -
                    #     when the application got a clean close of its handle (a file whose own last call failed is not judged)
                    seen = {}
                    closes = [j for j, cmd in enumerate(g) if cmd == "close 1"]
                    clean_close = False
                    if closes:
                        j = closes[-1]
                        lj = len(base) + j + 1 + (1 if j >= oi else 0) + (1 if j > oi else 0)
                        # (adfFileClose reports nothing: the close counts as clean when no fault was injected into it)
                        clean_close = (res.get(lj) or ["?"])[-1].startswith("ok") and oi < j
                    for ln in (range(1, len(L) + 1) if clean_close else ()):
                        cmd = L[ln - 1]
                        if cmd.startswith("open 7 "):
                            name7 = cmd[7:-2]
                            ro = (res.get(ln) or ["?"])[-1]
                            rr = (res.get(ln + 1) or ["?"])[-1] if ro.startswith("ok") else "not-there"
                            key7 = (common.kv(rr)[1].get("n", "?") + ":" + common.kv(rr)[1].get("fnv", "?")) if rr != "not-there" else rr
                            if name7 not in seen:
                                seen[name7] = key7
                            elif seen[name7] != key7:
                                ctx.fail("oracle", "a file written before the fault cleared reads differently later on (after a remount / after new allocations) although nothing modified it: "
                                                   "data that was not being modified is not read back correctly", dict(inp, file=name7), expected=seen[name7], actual=key7)
                                break
                    if len(ctx.samples) < 3:
                        ctx.sample({"flavour": flav, "faulted_operation": g[oi], "fault": "%s #%d" % (rw, k)})
                    if len(ctx.failures) > 6:
                        break
                if len(ctx.failures) > 6:
                    break
            if len(ctx.failures) > 6:
                break
        if len(ctx.failures) > 6:
            break
    if len(ctx.failures) <= 6:
        seek_then_modify(ctx)
    if len(ctx.failures) <= 6:
        burst_and_retry(ctx)
    rule = ("base volume with a 75-block file and a small file in a subdirectory; target groups: sequential/positioned reads across block and extension boundaries, "
            "listings and lookups (hash and cache), overwrite, create, mkdir/delete/move, truncate/comment; for each call of a group one run per device read and per "
            "device write it performs with exactly that transfer failing (all of them, all six flavours, both tiers); distinct = (flavour, group, call, transfer)")
    return common.finish(ctx, proof, rule, level="fault_enumeration",
                         assumptions=["a failing device read either fills the caller's buffer with a recognisable pattern or leaves it untouched (both device behaviours are enumerated)",
                                      "content of a file whose own write was interrupted by the fault is not judged (only that nothing crashes and bystanders survive)"])


def replay(ctx, rep):
    print(rep.get("failure"))
    return 0

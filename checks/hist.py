"""Run one operation history on the implementation (harness), on the Coq reference model (adfm spec) and judge
every dumped image with the Coq decoder (adfm decode).  Returns structured findings classified by property."""
import os, re, subprocess
from . import common, gen
from .common import hexs

# decoder error code -> (property, text)
DECODE_CODES = {
    1: ("C04", "block pointer outside the volume"), 2: ("C03", "wrong block type"), 3: ("C03", "wrong secondary type"),
    4: ("C03", "bad checksum"), 5: ("C03", "self pointer wrong"), 6: ("C03", "parent pointer wrong"), 7: ("C03", "name length invalid"),
    8: ("C03", "entry not in the hash chain of its name"), 9: ("C03", "chain longer than the volume (cycle)"),
    10: ("C02", "two entries with the same folded name in one directory"), 11: ("C03", "highSeq does not match the size"),
    12: ("C03", "data block pointer zero/out of range, or stale pointer in table"), 13: ("C03", "extension block count does not match the size"),
    14: ("C03", "OFS data block header wrong"), 15: ("C04", "block reached twice"), 16: ("C04", "owned block marked free in the on-disk bitmap"),
    17: ("C05", "allocated blocks that nothing owns (leak) / free count mismatch"), 18: ("C03", "boot block"), 19: ("C03", "root block"),
    20: ("C03", "bitmap-valid flag not set at a quiescent point"), 21: ("C03", "bitmap page pointers"), 22: ("C07", "cache block malformed"),
    23: ("C07", "cached listing differs from hash-table listing"), 24: ("C03", "comment length"), 25: ("C03", "firstData"), 26: ("C03", "link"),
    27: ("C03", "OFS data block sequence number wrong"), 28: ("C03", "OFS data block dataSize does not match the file size"),
    29: ("C03", "OFS data block nextData does not point to the next data block"),
}

FILE_OPS = {"open", "close", "flush", "write", "read", "seek", "trunc", "stat"}
NS_OPS = {"mkdir", "rm", "mv", "comment", "prot", "lookup", "list", "undel"}


def canon_list(lines):
    ents = []
    for l in lines:
        if l.startswith("E "):
            d = common.kv(l)[1]
            ents.append("E type=%s size=%s acc=%s name=%s cmt=%s" % (d.get("type"), d.get("size"), d.get("acc"), d.get("name"), d.get("cmt")))
    return sorted(ents)


def compare_line(cmd, himp, hspec, ignore_names=()):
    """cmd: script line; himp: list of harness result strings for the line; hspec: spec result string. returns None or mismatch text"""
    op = cmd.split()[0]
    imp = himp[-1] if himp else "?"
    st_i = imp.split()[0] if imp else "?"
    if op == "list":
        want = hspec.split("|")
        st_s = want[-1].split()[0]
        if st_i != st_s:
            return "status %s vs model %s" % (imp, want[-1])
        if st_s == "ok":
            a, b = canon_list(himp), sorted(want[:-1])
            if ignore_names:
                a = [x for x in a if common.kv(x)[1].get("name") not in ignore_names]
                b = [x for x in b if common.kv(x)[1].get("name") not in ignore_names]
            if a != b:
                return "listing differs: impl %s / model %s" % (a, b)
        return None
    st_s = hspec.split()[0]
    if st_i != st_s:
        return "status '%s' vs model '%s'" % (imp, hspec)
    if st_s != "ok":
        return None
    di, ds = common.kv(imp)[1], common.kv(hspec)[1]
    keys = {"open": ["size", "pos", "eof"], "write": ["n", "pos", "size", "eof"], "read": ["n", "fnv", "pos", "size", "eof"],
            "seek": ["pos", "size", "eof"], "trunc": ["pos", "size", "eof"], "stat": ["pos", "size", "eof"],
            "lookup": ["type", "size", "acc", "name"]}.get(op, [])
    for k in keys:
        if di.get(k) != ds.get(k):
            return "%s: impl %s / model %s" % (k, imp, hspec)
    return None


def parse_decode(text):
    lines = text.splitlines()
    if not lines:
        return {"ok": False, "code": -1, "where": -1, "raw": "no output"}
    if lines[0].startswith("BAD"):
        d = common.kv(lines[0])[1]
        return {"ok": False, "code": int(d["code"]), "where": int(d["where"]), "raw": lines[0]}
    d = common.kv(lines[0])[1]
    tree = []
    stack = []
    for l in lines[1:]:
        if l.startswith("N "):
            t = l.split()
            depth, kind = int(t[1]), t[2]
            f = common.kv(" ".join(["x"] + t[3:]))[1]
            stack = stack[:depth] + [f.get("name")]
            tree.append(("/".join(stack), kind, f))
    return {"ok": True, "free": int(d["free"]), "owned": int(d["owned"]), "volname": d.get("volname"), "flavour": int(d["flavour"]),
            "bmpages": int(d.get("bmpages", 0)), "bmexts": int(d.get("bmexts", 0)), "tree": tree}


def decode_image(ctx, img, first, nblocks, strict=True):
    r = subprocess.run([ctx.ocaml("adfm"), "decode", img, str(first), str(nblocks), "1" if strict else "0"], preexec_fn=common.big_stack,
                       stdout=subprocess.PIPE, stderr=subprocess.PIPE, text=True, timeout=600)
    return parse_decode(r.stdout)


def tree_canon_decode(dec):
    out = []
    for (p, kind, f) in dec["tree"]:
        if kind == "L":
            continue
        out.append("%s %s prot=%s size=%s fnv=%s cmt=%s" % (p, kind, f.get("prot"), f.get("size"), f.get("fnv") if kind == "F" else "0", f.get("cmt")))
    return sorted(out)


def tree_canon_spec(lines):
    out = []
    for l in lines:
        t = l.split()
        f = common.kv(" ".join(["x"] + t[2:]))[1]
        # spec paths use '/' joined hex like the decoder
        out.append("%s %s prot=%s size=%s fnv=%s cmt=%s" % (t[0], t[1], f.get("prot"), f.get("size"), f.get("fnv") if t[1] == "F" else "0", f.get("cmt")))
    return sorted(out)


def run_history(ctx, L, first=0, nblocks=1760, variant="adfh", timeout=300, spec_patch=None, ignore_names=()):
    """L: script lines.  Lines 'dump $W/imgK' mark judgement points; a 'spectree' line must follow each dump.
       returns dict(findings=[(prop, what, detail)], nlines, ...)"""
    script = "\n".join(L) + "\n"
    rc, out, err, wd = common.run_script(ctx, script, variant=variant, timeout=timeout)
    res = common.parse_results(out)
    findings = []
    if rc != 0:
        findings.append(("CRASH", "harness exit code %d" % rc, {"tail": out[-4:], "stderr": err[-400:]}))
    sp = os.path.join(wd, "script")
    LU = L
    if any(l.startswith("undel ") for l in L):
        # whether the blocks of a deleted entry are still intact is not something the reference model knows: an undelete the
        # library refused is replayed as no operation (its consequences - nothing changed - are still judged)
        LU = [("noop" if l.startswith("undel ") and not (res.get(i) or ["?"])[-1].startswith("ok") else l) for i, l in enumerate(L, 1)]
        if not spec_patch:
            sp = os.path.join(wd, "script.spec")
            with open(sp, "w") as f:
                f.write("\n".join(LU) + "\n")
    if spec_patch:
        # the reference model does not know about space: calls that ran out of blocks are replayed with what was stored
        LS, tolerant = spec_patch(LU, res)
        sp = os.path.join(wd, "script.spec")
        with open(sp, "w") as f:
            f.write("\n".join(LS) + "\n")
    if not spec_patch:
        tolerant = set()
    r = subprocess.run([ctx.ocaml("adfm"), "spec", sp], preexec_fn=common.big_stack, stdout=subprocess.PIPE, stderr=subprocess.PIPE, text=True, timeout=600)
    spec = {}
    spec_tree = {}
    if r.returncode != 0:
        findings.append(("TOOL", "reference model driver failed", {"stderr": r.stderr[-300:]}))
    for l in r.stdout.splitlines():
        m = re.match(r"^(\d+) (.*)$", l)
        if not m:
            continue
        ln, rest = int(m.group(1)), m.group(2)
        if rest.startswith("T "):
            spec_tree.setdefault(ln, []).append(rest[2:])
        else:
            spec[ln] = rest
    last_free = None
    volfull = False
    writers = set()
    for i, cmd in enumerate(L, 1):
        if rc != 0 and i not in res:
            break
        op = cmd.split()[0] if cmd.split() else ""
        t = cmd.split()
        if op == "open" and "w" in t[4] and (res.get(i) or ["?"])[-1].startswith("ok"):
            writers.add(t[1])
        if op == "close":
            writers.discard(t[1])
        if op in ("umount", "umountdev", "closedev"):
            writers.clear()
        if op == "dump" and writers:
            continue          # not a quiescent point: a file is open for writing
        if op in FILE_OPS or op in NS_OPS:
            if i in spec and spec[i] != "skip":
                himp = res.get(i, [])
                if i in tolerant and himp:
                    himp = himp[:-1] + ["ok " + " ".join(himp[-1].split()[1:])]     # a space-limited call may report failure
                mm = compare_line(cmd, himp, spec[i], ignore_names)
                if mm:
                    prop = "C01" if op in FILE_OPS else "C02"
                    if op == "list" and len(t) > 2 and t[2] == "1":
                        prop = "C07"          # listing served from the directory cache
                    findings.append((prop, "operation result differs from the reference model", {"line": i, "cmd": cmd, "diff": mm}))
        if op == "free":
            d = common.kv((res.get(i) or ["?"])[0])[1]
            last_free = int(d["free"]) if "free" in d else None
        if op == "dump":
            img = cmd.split()[1].replace("$W", wd)
            if not os.path.exists(img):
                continue
            dec = decode_image(ctx, img, first, nblocks)
            if not dec["ok"]:
                prop, txt = DECODE_CODES.get(dec["code"], ("C03", "decoder rejected the image"))
                findings.append((prop, "image at a quiescent point is not well formed: " + txt, {"line": i, "decode": dec["raw"]}))
            else:
                # tree comparison with the reference model at the following spectree line
                st = spec_tree.get(i + 1)
                if i + 1 <= len(L) and L[i].startswith("spectree"):
                    a, b = tree_canon_decode(dec), tree_canon_spec(st or [])
                    if ignore_names:
                        a = [x for x in a if x.split()[0].split("/")[-1] not in ignore_names]
                        b = [x for x in b if x.split()[0].split("/")[-1] not in ignore_names]
                    if a != b:
                        da = [x for x in a if x not in b][:3]
                        db = [x for x in b if x not in a][:3]
                        # classify: content/size differences of files -> C01; shape/metadata -> C02
                        names_a = set(x.split()[0] + " " + x.split()[1] for x in a)
                        names_b = set(x.split()[0] + " " + x.split()[1] for x in b)
                        prop = "C02" if names_a != names_b else ("C01" if any(" F " in x for x in da + db) and all(
                            x.split()[2] == y.split()[2] and x.split()[5] == y.split()[5] for x, y in zip(sorted(da), sorted(db))) else "C02")
                        findings.append((prop, "decoded image differs from the reference model", {"line": i, "only_in_image": da, "only_in_model": db}))
                if last_free is not None and dec["free"] != last_free:
                    findings.append(("C05", "free-block count reported by the library differs from the on-disk bitmap", {"line": i, "library": last_free, "bitmap": dec["free"]}))
            try:
                os.unlink(img)
            except OSError:
                pass
    # a generated history whose device or volume cannot be mounted explores nothing: make that visible
    for i_, cmd_ in enumerate(L, 1):
        if cmd_.startswith("mountdev ") or (cmd_.startswith("mount ") and len(cmd_.split()) == 3):
            r_ = (res.get(i_) or ["?"])[-1]
            if r_.startswith("err"):
                findings.append(("TOOL", "a generated history could not mount its device / volume (the history is vacuous)", {"line": i_, "cmd": cmd_}))
                break
    return {"findings": findings, "results": res, "wd": wd, "rc": rc, "script": L, "spec": spec}


def build_history(ctx, flav, kind="DD", nops=40, big=False, remount_every=15, dirs=True, names=None, max_handles=4, volname=b"Vol"):
    """a random history with quiescent judgement points (all handles closed; with and without remount)"""
    rng = ctx.rng
    L = gen.dev_create(kind, flav, volname) + ["mountdev 0", "mount 0 0"]
    h = gen.Hist(rng, flav, big=big, dirs=dirs, names=names, max_handles=max_handles)
    k = 0
    for i in range(nops):
        L += h.step()
        if (i + 1) % remount_every == 0 or i == nops - 1:
            L += h.close_all()
            k += 1
            if rng.random() < 0.5:
                L += ["free", "dump $W/img%d" % k, "spectree"]
            else:
                L += ["free", "umount", "umountdev", "dump $W/img%d" % k, "spectree", "mountdev 0", "mount 0 0"]
    L += ["list - 0 0", "umount", "umountdev"]
    return L


def geometry(kind):
    if kind == "DD":
        return 0, 1760
    if kind == "HD":
        return 0, 3520
    if kind.startswith("HF:"):
        return 0, int(kind[3:])
    raise ValueError(kind)


def minimize(ctx, L, pred, keep_prefix=0, first=0, nblocks=1760, budget=120, seconds=90):
    """delta-debug the script lines (the first keep_prefix lines are kept); pred(result) -> bool.
    Bounded by a number of runs and by wall-clock time (a looping implementation costs a watchdog period per run)."""
    import time as _t
    t_end = _t.time() + seconds
    cur = list(L)
    n = 2
    runs = 0
    while len(cur) - keep_prefix >= 2 and runs < budget and _t.time() < t_end:
        body = cur[keep_prefix:]
        chunk = max(1, len(body) // n)
        reduced = False
        for i in range(0, len(body), chunk):
            cand = cur[:keep_prefix] + body[:i] + body[i + chunk:]
            runs += 1
            try:
                r = run_history(ctx, cand, first=first, nblocks=nblocks)
            except Exception:
                continue
            if pred(r):
                cur = cand
                n = max(n - 1, 2)
                reduced = True
                break
            if runs >= budget or _t.time() > t_end:
                break
        if not reduced:
            if chunk == 1:
                break
            n = min(n * 2, len(body))
    return cur

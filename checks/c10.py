"""C10 Hostile images: the read path never makes an invalid memory access.
Well-formed images (independent writer and library-made, all flavours incl. directory cache, links, extension blocks)
get each metadata field overwritten in turn with boundary values (0, 1, 30, 31, 72, 73, 127, 128, 255, 487, 488, 2^31-1,
-1, -2, self, root, random), checksum repaired or not; the read-only API (mount, list with and without cache, lookup,
open, seek, read) runs on them in the AddressSanitizer build with a per-call read budget.  Any sanitizer report, signal
or abort is a violation; hangs are the business of C11."""
import os, shutil, subprocess
from . import common, gen, hist, mkimage, mutimg, c06
from .common import hexs

VARIANTS = ("plain", "asan")


def base_images(ctx):
    rng = ctx.rng
    out = []
    for flav in ([0, 1, 4, 5] if ctx.tier == "quick" else gen.FLAVOURS):
        tree = {b"big": [bytes(rng.randrange(256) for _ in range(997)) * 80, 0, b"comment"], b"small": [b"hello", 0, b""],
                b"dir": {b"in1": [b"x" * 600, 0, b""], b"sub": {b"deep": [b"d", 0, b""]}}, b"emptydir": {},
                b"full": dict(((b"entry_%02d_sixteen" % i)[:16], [b"c%d" % i, 0, b"cm" if i == 10 else b""]) for i in range(11)), b"lnk": ("link", (b"small",)), b"dl": ("link", (b"dir",))}
        im = mkimage.Image(1760, flav, rng, policy="random", pack_cache=True)
        data = im.build(tree)
        out.append((flav, 1760, data, "mkimage"))
    # a hardfile whose size needs exactly one bitmap page (4064 + 3 blocks): a second page pointer in the root is one too many
    small = {b"small": [b"hello", 0, b""], b"dir": {b"in1": [b"x" * 600, 0, b""]}, b"big": [bytes(rng.randrange(256) for _ in range(997)) * 40, 0, b""]}
    im = mkimage.Image(4067, 1, rng, policy="random")
    out.append((1, 4067, im.build(small), "mkimage-hardfile-4067"))
    return out


def read_script(img_path, n, names):
    L = ["readlimit 30000", "loaddev %s %s" % ("mem" if n in (1760, 3520) else "file", img_path), "mountdev 1", "mount 0 1",
         "list - 0 1", "list - 1 1", "free"]
    for (p, nm) in names:
        # seek 500: inside the second data block on OFS (500 / 488 = 1) at an offset beyond 488 in 512-byte terms - where a chain
        # walk that steps by the wrong block size ends up past the payload of the buffered block
        L += ["lookup %s %s" % (p, nm), "open 0 %s %s r" % (p, nm), "read 0 700", "seek 0 500", "read 0 700", "seek 0 40000", "read 0 1000", "seek 0 100000", "read 0 10", "close 0",
              "open 0 %s %s r" % (p, nm), "read 0 200000", "close 0", "fileblocks %s %s" % (p, nm)]
    L += ["cd %s" % hexs(b"dl"), "cd %s/%s" % (hexs(b"dir"), hexs(b"sub")), "umount", "umountdev"]
    return L


def run(ctx):
    proof = common.proof_status(ctx)
    rng = ctx.rng
    names = [("-", hexs(b"big")), ("-", hexs(b"small")), ("-", hexs(b"lnk")), (hexs(b"dir"), hexs(b"in1")),
             ("%s/%s" % (hexs(b"dir"), hexs(b"sub")), hexs(b"deep")), ("-", hexs(b"dir")), ("-", hexs(b"nonexistent"))]
    total = 0
    budget = 6000 if ctx.tier == "quick" else 200000
    for (flav, n, data, label) in base_images(ctx):
        p0 = os.path.join(ctx.work, "c10_base.img")
        open(p0, "wb").write(data)
        dec = hist.decode_image(ctx, p0, 0, n, strict=False)
        if not dec["ok"]:
            ctx.notes.append("base image rejected by the decoder: %s" % dec["raw"])
            continue
        r = subprocess.run([ctx.ocaml("adfm"), "decode", p0, "0", str(n), "0"], stdout=subprocess.PIPE, text=True, preexec_fn=common.big_stack)
        owned = [int(x) for x in r.stdout.splitlines()[1].split()[1].split(",")]
        # data blocks of FFS files are not metadata: keep blocks whose type field looks like metadata plus OFS data blocks (first few)
        fields = mutimg.metadata_fields(data, n, owned, flav)
        rng.shuffle(fields)
        nbases = 5 if ctx.tier == "quick" else len(gen.FLAVOURS) + 1
        per_image = budget // nbases

        def fname(f):
            return "table" if f[3].startswith("table[") else ("bmPages" if f[3].startswith("bmPages") else f[3])
        # classes (kind of block, field, value, checksum repaired): every class gets a case before any gets a second one
        classes = {}
        for fld in fields:
            vals = list(mutimg.VALUES32 if fld[2] == 4 else mutimg.VALUES8) + ([fld[0], n // 2, n - 1, n] if fld[2] == 4 else []) + mutimg.EXTRA.get((fld[0], fld[1]), [])
            for v in vals:
                for fixs in (True, False):
                    classes.setdefault((fld[4], fname(fld), v if v not in (fld[0],) else "self", fixs), []).append((fld, v, fixs))
        order = sorted(classes, key=repr)
        rng.shuffle(order)
        # checksum-repaired cases reach deeper: they come first; values computed from the image (record ends at the area edge ...) before all
        targeted = set()
        for fld in fields:
            for v in mutimg.EXTRA.get((fld[0], fld[1]), []):
                targeted.add((fld[4], fname(fld), v))
        order.sort(key=lambda c: (not c[3], (c[0], c[1], c[2]) not in targeted))
        cases = []
        depth = 0
        while len(cases) < per_image and any(len(classes[c]) > depth for c in order):
            for c in order:
                if len(classes[c]) > depth:
                    cases.append(classes[c][depth])
            depth += 1
        cases = cases[:per_image]
        ctx.bump("mutation_classes", len(order))

        def one(job):
            k, (fld, v, fixs) = job
            m = mutimg.mutate(data, n, fld, v, fixs)
            mp = os.path.join(ctx.work, "c10_m%d_%d.img" % (flav, k))
            open(mp, "wb").write(m)
            L = read_script(mp, n, names)
            rc, out, err, wd = common.run_script(ctx, "\n".join(L) + "\n", variant="adfh-asan", timeout=120,
                                                 env={"ASAN_OPTIONS": "detect_leaks=0:abort_on_error=0:exitcode=99:allocator_may_return_null=1"})
            os.unlink(mp)
            shutil.rmtree(wd, ignore_errors=True)
            return (fld, v, fixs, L, rc, out, err)
        for (fld, v, fixs, L, rc, out, err) in common.pmap(one, list(enumerate(cases))):
            total += 1
            ctx.count((flav, fld[3], fld[4], v, fixs))
            ctx.bump("field:" + fld[4])
            if rc not in (0, 3):
                first_err = [l for l in err.splitlines() if "ERROR" in l or "SUMMARY" in l][:2]
                ctx.fail("crash", "invalid memory access / abort on a corrupted image (exit %d)" % rc,
                         {"flavour": flav, "block": fld[0], "offset": fld[1], "width": fld[2], "field": fld[3], "block_kind": fld[4], "value": v,
                          "checksum_fixed": fixs, "base": label, "script": L[2:8]},
                         expected="data or an error", actual={"last_output": out[-2:], "sanitizer": first_err})
                if len(ctx.failures) > 6:
                    break
            if len(ctx.samples) < 3:
                ctx.sample({"flavour": flav, "field": fld[3], "block_kind": fld[4], "value": v, "checksum_fixed": fixs})
        if len(ctx.failures) > 6:
            break
    # partitioned disk: every long word of the RDSK / PART / FSHD / LSEG blocks
    L0 = gen.dev_create("PART:120:2:16:2,50;52,60", 1) + ["dump $W/rdb.img"]
    rc, out, err, wd = common.run_script(ctx, "\n".join(L0) + "\n")
    rdb = os.path.join(wd, "rdb.img")
    if os.path.exists(rdb) and len(ctx.failures) <= 6:
        rdata = open(rdb, "rb").read()
        nblk = len(rdata) // 512
        rcases = []
        for blk in range(0, 5):
            for off in range(0, 256, 4):
                if mkimage.get32(rdata, blk * 512 + off) == 0 and off > 40 and rng.random() < (0.8 if ctx.tier == "quick" else 0.0):
                    continue       # quick tier: most of the zero (reserved) words are skipped
                for v in [0, 1, blk, 5, 0xFFFFFFFF, 0x7FFFFFFF, 0x80000000, nblk, nblk - 1, 64, 65, 0x10000]:
                    if v != mkimage.get32(rdata, blk * 512 + off):
                        rcases.append((blk, off, v, True))
                rcases.append((blk, off, 0xFFFFFFFF, False))
        rng.shuffle(rcases)
        rcases = rcases[: (1500 if ctx.tier == "quick" else 100000)]

        def rone(job):
            k, (blk, off, v, fixs) = job
            m = bytearray(rdata)
            mkimage.put32(m, blk * 512 + off, v)
            if fixs and off != 8:
                size = 256
                bb = bytearray(m[blk * 512: blk * 512 + size])
                mkimage.put32(bb, 8, 0)
                s_ = 0
                for i in range(0, size, 4):
                    s_ = (s_ + mkimage.get32(bb, i)) & 0xFFFFFFFF
                mkimage.put32(bb, 8, (-s_) & 0xFFFFFFFF)
                m[blk * 512: blk * 512 + size] = bb
            mp = os.path.join(ctx.work, "c10_rdb%d.img" % k)
            open(mp, "wb").write(bytes(m))
            L = ["readlimit 30000", "loaddev mem %s 120 2 16" % mp, "mountdev 1", "mount 0 1", "list - 0 1", "free", "umount", "mount 1 1", "list - 0 1", "umount", "umountdev"]
            rc, out, err, wd2 = common.run_script(ctx, "\n".join(L) + "\n", variant="adfh-asan", timeout=120,
                                                  env={"ASAN_OPTIONS": "detect_leaks=0:abort_on_error=0:exitcode=99:allocator_may_return_null=1"})
            os.unlink(mp)
            shutil.rmtree(wd2, ignore_errors=True)
            return (blk, off, v, fixs, L, rc, out, err)
        for (blk, off, v, fixs, L, rc, out, err) in common.pmap(rone, list(enumerate(rcases))):
            total += 1
            ctx.count(("rdb", blk, off, v, fixs))
            ctx.bump("field:rdb-block-%d" % blk)
            if rc not in (0, 3):
                first_err = [l for l in err.splitlines() if "ERROR" in l or "SUMMARY" in l][:2]
                ctx.fail("crash", "invalid memory access / abort on a corrupted partitioned-disk image (exit %d)" % rc,
                         {"rdb_block": blk, "offset": off, "value": v, "checksum_fixed": fixs, "script": L},
                         expected="data or an error", actual={"last_output": out[-2:], "sanitizer": first_err})
                if len(ctx.failures) > 6:
                    break
    # the deliberately corrupt dump shipped with the repository
    f = os.path.join(common.REPO, "regtests", "Dumps", "cache_crash.adf")
    if os.path.exists(f):
        L = ["readlimit 30000", "loaddev mem %s" % f, "mountdev 1", "mount 0 1", "list - 0 1", "list - 1 1", "umount", "umountdev"]
        rc, out, err, wd = common.run_script(ctx, "\n".join(L) + "\n", variant="adfh-asan", timeout=60)
        ctx.count(("cache_crash.adf",))
        if rc not in (0, 3):
            ctx.fail("crash", "invalid memory access on regtests/Dumps/cache_crash.adf (exit %d)" % rc, {"script": L}, actual=(out[-2:], err[-400:]))
    rule = ("well-formed base images (independent writer; OFS/FFS, with and without directory cache; files with extension blocks, nested directories, hard links) x "
            "each metadata field of each reached metadata block x boundary values (and self / root / last / one-past-last block) x checksum repaired or not, classes (block kind, field, value) "
            "covered round-robin; every long word of the RDSK/PART/FSHD/LSEG blocks of a two-partition disk x 12 values; run under AddressSanitizer(+bounds); "
            "distinct = (flavour, field, block kind, value, checksum fixed); all non-trivial")
    return common.finish(ctx, proof, rule, level="exploration",
                         assumptions=["AddressSanitizer detects the invalid access (stack/heap/global buffer overflow, use after free); plain wild reads inside mapped memory may escape it",
                                      "hangs are excluded here by a per-call read budget and judged by C11"])


def replay(ctx, rep):
    print(rep.get("failure"))
    return 0

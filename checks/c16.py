"""C16 Timestamps.
Theorems (Props/Properties_C16.v) are about the functions REGENERATED from adf_util.c.
This check (a) rebuilds and re-proves them, (b) validates the translation: compiled C vs extracted generated
Gallina on every day 0..45000 and every date 1978..2100 (thorough) or a boundary+random subset (quick),
(c) runs the Coq calendar spec (extracted) as oracle on the C results, (d) checks the stamps on images."""
import datetime, os
from . import common

NEEDED = ["adfIsLeap", "adfDays2Date", "adfTime2AmigaTime", "adfGiveCurrentTime"]
EPOCH = datetime.date(1978, 1, 1)


def gen_days(ctx):
    if ctx.tier == "thorough":
        return list(range(0, 45001))
    days = set(range(0, 800))
    # every year boundary, every leap day, every March 1st, century years
    for y in range(1978, 2102):
        for (m, d) in ((1, 1), (2, 28), (3, 1), (12, 31), (12, 30)):
            n = (datetime.date(y, m, d) - EPOCH).days
            days.update((n - 1, n, n + 1))
    for _ in range(1500):
        days.add(ctx.rng.randrange(0, 45001))
    return sorted(x for x in days if 0 <= x <= 45000)


def gen_dates(ctx):
    out = []
    d = EPOCH
    end = datetime.date(2100, 12, 31)
    times = [(0, 0, 0), (12, 34, 56), (23, 59, 59)]
    if ctx.tier == "thorough":
        while d <= end:
            for t in times:
                out.append((d, t))
            d += datetime.timedelta(1)
        return out
    sel = set()
    for y in range(1978, 2101):
        for (m, dd) in ((1, 1), (2, 28), (3, 1), (3, 31), (4, 1), (12, 31), (7, 15)):
            sel.add(datetime.date(y, m, dd))
        try:
            sel.add(datetime.date(y, 2, 29))
        except ValueError:
            pass
    for _ in range(1500):
        sel.add(EPOCH + datetime.timedelta(ctx.rng.randrange(0, 44925)))
    for d in sorted(sel):
        out.append((d, times[ctx.rng.randrange(3)]))
    return out


def run(ctx):
    proof = common.proof_status(ctx)
    tf = common.translator_failures(ctx, NEEDED)
    if tf:
        proof["problems"].append("translator could not translate: %s" % tf)
    lines = []
    for n in gen_days(ctx):
        lines.append("adfDays2Date %d" % n)
    dates = gen_dates(ctx)
    for d, (h, mi, s) in dates:
        lines.append("adfTime2AmigaTime %d %d %d %d %d %d" % (d.day, h, mi, d.month, s, d.year - 1900))
    for y in list(range(1900, 2500)) + [0, 4, 100, 400, 1600, 2800, 3000]:
        lines.append("adfIsLeap %d" % y)
    text = "\n".join(lines) + "\n"
    rc, cout, cerr = common.run_lines(ctx.bin("leafh"), text)
    cres = cout.splitlines()
    have_model = os.path.exists(ctx.ocaml("leafm"))
    mres = []
    if have_model:
        rc2, mout, merr = common.run_lines(ctx.ocaml("leafm"), text)
        mres = mout.splitlines()
    else:
        proof["problems"].append("extracted model unavailable (extraction or OCaml build failed)")
    # (b) translation validation: C vs generated
    if have_model:
        if len(cres) != len(mres):
            ctx.fail("corr", "leaf output length differs", {"c": len(cres), "model": len(mres)}, stream="leaf")
        for a, b in zip(cres, mres):
            if a != b:
                ctx.fail("corr", "generated Gallina and compiled C disagree", a.split(" = ")[0], expected=b, actual=a, stream="leaf")
                if len(ctx.failures) > 20:
                    break
    # (c) oracle: the Coq calendar spec judges the C results
    spec_q = []
    idx = []
    for l in cres:
        lhs, _, rhs = l.partition(" = ")
        t = lhs.split()
        if t[0] == "adfDays2Date":
            y, m, d = rhs.split()
            spec_q.append("spec_amiga_days %s %s %s" % (y, m, d))
            spec_q.append("spec_month_len %s %s" % (y, m))
            idx.append(("d2d", int(t[1]), (int(y), int(m), int(d))))
            ctx.count(lhs)
            ctx.bump("days2date")
        elif t[0] == "adfTime2AmigaTime":
            dd, h, mi, mo, s, yr = map(int, t[1:7])
            spec_q.append("spec_amiga_days %d %d %d" % (yr + 1900, mo, dd))
            idx.append(("t2a", (yr + 1900, mo, dd, h, mi, s), tuple(map(int, rhs.split()))))
            ctx.count(lhs)
            ctx.bump("time2amiga")
        elif t[0] == "adfIsLeap":
            y = int(t[1])
            exp = 1 if (y % 4 == 0 and y % 100 != 0) or y % 400 == 0 else 0
            ctx.count(lhs)
            ctx.bump("isleap")
            if int(rhs) != exp:
                ctx.fail("oracle", "adfIsLeap wrong", {"year": y}, expected=exp, actual=int(rhs))
    if have_model:
        rc3, sout, _ = common.run_lines(ctx.ocaml("leafm"), "\n".join(spec_q) + "\n")
        sres = [l.partition(" = ")[2] for l in sout.splitlines()]
        k = 0
        for item in idx:
            if item[0] == "d2d":
                _, days, (y, m, d) = item
                sd, ml = int(sres[k]), int(sres[k + 1])
                k += 2
                if not (1 <= m <= 12 and 1 <= d <= ml and sd == days):
                    ctx.fail("oracle", "adfDays2Date: not the Gregorian date of that day count", {"days": days},
                             expected="a valid date whose Amiga day number is %d" % days, actual=[y, m, d, "spec day number %d" % sd])
            else:
                _, (y, m, d, h, mi, s), got = item
                sd = int(sres[k])
                k += 1
                exp = (sd, h * 60 + mi, s * 50)
                if got != exp:
                    ctx.fail("oracle", "adfTime2AmigaTime: wrong Amiga time", {"date": [y, m, d, h, mi, s]}, expected=list(exp), actual=list(got))
    ctx.sample(cres[3] if len(cres) > 3 else "")
    ctx.sample(cres[len(cres) // 2] if cres else "")
    # (d) image level: stamps and listing dates with the clock pinned at leap-day / century instants
    instants = [datetime.datetime(2000, 2, 29, 12, 0, 0), datetime.datetime(2000, 3, 1, 0, 0, 1), datetime.datetime(1980, 3, 1, 8, 0, 0),
                datetime.datetime(2100, 3, 1, 0, 0, 0), datetime.datetime(2024, 12, 31, 23, 59, 59), datetime.datetime(1999, 12, 31, 23, 59, 59)]
    for _ in range(4 if ctx.tier == "quick" else 60):
        instants.append(datetime.datetime(1978, 1, 1) + datetime.timedelta(seconds=ctx.rng.randrange(0, 44900 * 86400)))
    for t in instants:
        unix = int((t - datetime.datetime(1970, 1, 1)).total_seconds())
        sc = "clock %d\nnewdev mem 80 2 11\nmkflop 1 %s\nclosedev\nmountdev 0\nmount 0 0\nmkdir - %s\nlist - 0 0\numount\numountdev\n" % (
            unix, common.hexs("T"), common.hexs("d"))
        rc, out, err, _ = common.run_script(ctx, sc)
        res = common.parse_results(out)
        got = None
        for l in res.get(8, []):
            if l.startswith("E "):
                got = common.kv(l)[1].get("date")
        exp = "%d/%d/%d-%d:%d:%d" % (t.year, t.month, t.day, t.hour, t.minute, t.second)
        ctx.count(("stamp", unix))
        ctx.bump("image_stamp")
        if got != exp:
            ctx.fail("oracle", "date listed for an entry created at a pinned instant is not that instant", {"unix": unix, "script": sc},
                     expected=exp, actual=got)
    # (e) the three date triples of the root block (0x1a4 root alteration, 0x1d8 volume alteration, 0x1e4 creation) on every kind of
    # device: after a format at t1 the creation and volume-alteration triples are t1 and the root-alteration triple is t1 or still
    # unstamped (0,0,0); after a mkdir in the root at t2 creation is still t1 and the other two are t2
    def amiga(t):
        return ((t - datetime.datetime(1978, 1, 1)).days, t.hour * 60 + t.minute, t.second * 50)
    kinds = [("DD", ["newdev mem 80 2 11", "mkflop %d %s"], 0), ("HD", ["newdev mem 80 2 22", "mkflop %d %s"], 0),
             ("hardfile", ["newdev file 4100 1 1", "mkhdf %d %s"], 0),
             ("partition", ["newdev mem 120 4 17", "mkhd 2 2 58 %d %s 60 58 3 " + common.hexs("Second")], 1)]
    for i, t1 in enumerate(instants[:6] + instants[-2:]):
        t2 = t1 + datetime.timedelta(seconds=86400 * 3 + 3723)
        for kname, (nd, mk), part in [(k[0], k[1], k[2]) for k in kinds]:
            flav = (i + len(kname)) % 8
            u1 = int((t1 - datetime.datetime(1970, 1, 1)).total_seconds())
            u2 = int((t2 - datetime.datetime(1970, 1, 1)).total_seconds())
            L = ["clock %d" % u1, nd, mk % (flav, common.hexs("T")), "closedev", "mountdev 0", "mount %d 0" % part, "dump $W/a.img",
                 "clock %d" % u2, "mkdir - %s" % common.hexs("d"), "umount", "umountdev", "dump $W/b.img"]
            rc, out, err, wd = common.run_script(ctx, "\n".join(L) + "\n")
            res = common.parse_results(out)
            m = common.kv((res.get(6) or ["err"])[-1])
            if m[0] != "ok":
                ctx.fail("oracle", "cannot mount a freshly formatted volume", {"script": L}, expected="ok", actual=out[-300:])
                continue
            root = int(m[1]["root"]) + int(m[1]["first"])

            def trip(img):
                with open(os.path.join(wd, img), "rb") as f:
                    f.seek(root * 512)
                    b = f.read(512)
                g = lambda o: tuple(int.from_bytes(b[o + 4 * k:o + 4 * k + 4], "big") for k in range(3))
                return g(0x1a4), g(0x1d8), g(0x1e4)
            a1, v1, c1 = trip("a.img")
            a2, v2, c2 = trip("b.img")
            L2 = L
            ctx.count(("rootstamp", kname, flav, u1))
            ctx.bump("root_stamps:" + kname)
            e1, e2 = amiga(t1), amiga(t2)
            bad = []
            if c1 != e1:
                bad.append(("creation stamp after format", e1, c1))
            if v1 != e1:
                bad.append(("volume-alteration stamp after format", e1, v1))
            if a1 not in (e1, (0, 0, 0)):
                bad.append(("root-alteration stamp after format", "%s or unstamped" % (e1,), a1))
            if c2 != e1:
                bad.append(("creation stamp after a later mkdir", e1, c2))
            if v2 != e2:
                bad.append(("volume-alteration stamp after a mkdir", e2, v2))
            if a2 != e2:
                bad.append(("root-alteration stamp after a mkdir in the root", e2, a2))
            for what, e, g in bad[:1]:
                ctx.fail("oracle", "root block of a %s volume: %s is not the clock's instant (days, minutes, ticks)" % (kname, what),
                         {"unix_format": u1, "unix_mkdir": u2, "flavour": flav, "script": L2}, expected=str(e), actual=str(g))
    ctx.sample({"stamp_instant": str(instants[0])})
    rule = ("leaf calls: every day count / date of the tier's set (thorough: all of 0..45000 and all of 1978-01-01..2100-12-31 x 3 times of day); "
            "distinct = distinct call lines; non-trivial = every call (each is a different calendar position); plus image-level stamps at pinned instants")
    return common.finish(ctx, proof, rule, extra_cov={"exhaustive": ctx.tier == "thorough"},
                         assumptions=["C locale / TZ=UTC for localtime in the harness", "signed int arithmetic of the leaf functions does not overflow for the inputs covered (day counts < 2^31)"])


def replay(ctx, rep):
    f = rep.get("failure") or {}
    print(f)
    return 0

"""Independent AmigaDOS image writer (shares no code with ADFlib): used for C06 (read compatibility on well-formed images
with arbitrary placement), and as the base for the hostile-image mutators of C10/C11.  The images it writes are judged by
the Coq decoder before they are used."""
import struct
from .gen import py_hash, fold, is_intl

BSIZE = 512


def put32(b, off, v):
    struct.pack_into(">I", b, off, v & 0xFFFFFFFF)


def get32(b, off):
    return struct.unpack_from(">I", b, off)[0]


def fix_sum(b, off=20):
    put32(b, off, 0)
    s = 0
    for i in range(0, 512, 4):
        s = (s + get32(b, i)) & 0xFFFFFFFF
    put32(b, off, (-s) & 0xFFFFFFFF)


class Image:
    def __init__(self, nblocks, flav, rng, volname=b"indep", garbage=True, policy="random", pack_cache=False):
        self.pack_cache = pack_cache      # True: cache blocks are filled to the brim (no random early split)
        self.n = nblocks
        self.flav = flav
        self.rng = rng
        self.blocks = {}
        self.root = nblocks // 2
        self.bs = 512 if flav & 1 else 488
        free = [b for b in range(2, nblocks) if b != self.root]
        if policy == "random":
            rng.shuffle(free)
        elif policy == "reverse":
            free.reverse()
        elif policy == "interleave":
            free = free[::2] + free[1::2]
        elif policy == "data-low":
            # file data from the lowest blocks upwards (block 2 first), metadata from the top downwards
            free.reverse()
        self.policy = policy
        self.freelist = free
        self.used = {self.root}
        self.garbage = garbage
        self.volname = volname
        self.meta = {}          # header block -> dict(kind, path, size, ...)
        self.links = []

    def alloc(self, data=False):
        b = self.freelist.pop() if (data or self.policy != "data-low") else self.freelist.pop(0)
        self.used.add(b)
        return b

    def new_block(self):
        return bytearray(512)

    def entry_common(self, b, blk, parent, name, sectype, days=(100, 5, 7)):
        put32(b, 0, 2)
        put32(b, 4, blk)
        put32(b, 420, days[0]); put32(b, 424, days[1]); put32(b, 428, days[2])
        b[432] = len(name)
        b[433:433 + len(name)] = name
        put32(b, 500, parent)
        put32(b, 508, sectype)

    def write_file(self, parent, name, content, prot=0, comment=b""):
        h = self.alloc()
        b = self.new_block()
        self.entry_common(b, h, parent, name, -3)
        put32(b, 320, prot)
        put32(b, 324, len(content))
        b[328] = len(comment)
        b[329:329 + len(comment)] = comment
        d = (len(content) + self.bs - 1) // self.bs
        dblocks = [self.alloc(data=True) for _ in range(d)]
        # data blocks
        for i, db in enumerate(dblocks):
            chunk = content[i * self.bs:(i + 1) * self.bs]
            blk = self.new_block()
            if self.flav & 1:
                blk[:len(chunk)] = chunk
                if self.garbage and len(chunk) < 512:
                    blk[len(chunk):] = bytes(self.rng.randrange(256) for _ in range(512 - len(chunk)))
            else:
                put32(blk, 0, 8); put32(blk, 4, h); put32(blk, 8, i + 1); put32(blk, 12, len(chunk))
                put32(blk, 16, dblocks[i + 1] if i + 1 < d else 0)
                blk[24:24 + len(chunk)] = chunk
                fix_sum(blk)
            self.blocks[db] = blk
        put32(b, 8, min(d, 72))
        put32(b, 16, dblocks[0] if d else 0)
        for i in range(min(d, 72)):
            put32(b, 24 + 4 * (71 - i), dblocks[i])
        # extension blocks
        rest = dblocks[72:]
        nexts = (len(rest) + 71) // 72
        eblocks = [self.alloc() for _ in range(nexts)]
        for k, eb in enumerate(eblocks):
            part = rest[k * 72:(k + 1) * 72]
            e = self.new_block()
            put32(e, 0, 16); put32(e, 4, eb); put32(e, 8, len(part))
            for i, p in enumerate(part):
                put32(e, 24 + 4 * (71 - i), p)
            put32(e, 500, h)
            put32(e, 504, eblocks[k + 1] if k + 1 < nexts else 0)
            put32(e, 508, -3)
            fix_sum(e)
            self.blocks[eb] = e
        put32(b, 504, eblocks[0] if eblocks else 0)
        self.blocks[h] = b
        self.meta[h] = {"kind": "file", "name": name, "size": len(content), "prot": prot, "comment": comment, "content": content}
        return h

    def write_dir(self, parent, name, prot=0, comment=b""):
        h = self.alloc()
        b = self.new_block()
        self.entry_common(b, h, parent, name, 2)
        put32(b, 320, prot)
        b[328] = len(comment)
        b[329:329 + len(comment)] = comment
        self.blocks[h] = b
        self.meta[h] = {"kind": "dir", "name": name, "prot": prot, "comment": comment}
        return h

    def write_link(self, parent, name, target, isdir):
        h = self.alloc()
        b = self.new_block()
        self.entry_common(b, h, parent, name, 4 if isdir else -4)
        put32(b, 468, target)
        self.blocks[h] = b
        self.meta[h] = {"kind": "link", "name": name, "real": target, "isdir": isdir}
        return h

    def link_children(self, dirblk, children):
        """children: header blocks; chains in random order"""
        b = self.blocks[dirblk] if dirblk != self.root else self.rootblock
        slots = {}
        for c in children:
            nm = self.meta[c]["name"]
            slots.setdefault(py_hash(self.flav, nm), []).append(c)
        for s, chain in slots.items():
            self.rng.shuffle(chain)
            put32(b, 24 + 4 * s, chain[0])
            for i, c in enumerate(chain):
                put32(self.blocks[c], 496, chain[i + 1] if i + 1 < len(chain) else 0)

    def write_cache(self, dirblk, children):
        """directory cache chain for DIRCACHE volumes"""
        recs = []
        for c in children:
            m = self.meta[c]
            r = bytearray(25 + len(m["name"]) + len(m.get("comment", b"")))
            put32(r, 0, c); put32(r, 4, m.get("size", 0) if m["kind"] == "file" else 0); put32(r, 8, m.get("prot", 0))
            struct.pack_into(">HHH", r, 16, 100, 5, 7)
            r[22] = {"file": 0xFD, "dir": 2, "link": 0xFC if not m.get("isdir") else 4}[m["kind"]]
            r[23] = len(m["name"]); r[24:24 + len(m["name"])] = m["name"]
            cm = m.get("comment", b"")
            r[24 + len(m["name"])] = len(cm)
            r[25 + len(m["name"]):] = cm
            if len(r) % 2:
                r += b"\0"
            recs.append(bytes(r))
        blocks = [[]]
        used = 0
        for r in recs:
            if used + len(r) > 488 or (not self.pack_cache and self.rng.random() < 0.15 and blocks[-1]):
                blocks.append([]); used = 0
            blocks[-1].append(r); used += len(r)
        # a chain may hold blocks without records that still have a successor (a writer that does not unlink emptied blocks, or
        # keeps a spare one): recordsNb and nextDirC are independent fields
        if self.rng.random() < 0.3:
            for _ in range(self.rng.choice([1, 1, 2])):
                blocks.insert(self.rng.choice([0, 0, len(blocks) // 2, len(blocks)]), [])
        ids = [self.alloc() for _ in blocks]
        for k, (cid, rs) in enumerate(zip(ids, blocks)):
            cb = self.new_block()
            put32(cb, 0, 33); put32(cb, 4, cid); put32(cb, 8, dirblk); put32(cb, 12, len(rs)); put32(cb, 16, ids[k + 1] if k + 1 < len(ids) else 0)
            data = b"".join(rs)
            cb[24:24 + len(data)] = data
            fix_sum(cb)
            self.blocks[cid] = cb
        return ids[0]

    def build(self, tree):
        """tree: {name: bytes | dict | ('link', path tuple)}"""
        self.rootblock = self.new_block()
        self.paths = {}

        def rec(dirblk, sub, path):
            kids = []
            for nm, v in sub.items():
                if isinstance(v, dict):
                    h = self.write_dir(dirblk, nm)
                    self.paths[path + (nm,)] = h
                    rec(h, v, path + (nm,))
                elif isinstance(v, tuple) and v[0] == "link":
                    continue
                else:
                    content, prot, comment = v if isinstance(v, list) else (v, 0, b"")
                    h = self.write_file(dirblk, nm, content, prot, comment)
                    self.paths[path + (nm,)] = h
                kids.append(h)
            for nm, v in sub.items():
                if isinstance(v, tuple) and v[0] == "link" and v[1] in self.paths:
                    tgt = self.paths[v[1]]
                    h = self.write_link(dirblk, nm, tgt, self.meta[tgt]["kind"] == "dir")
                    kids.append(h)
            self.link_children(dirblk, kids)
            if self.flav & 4:
                c = self.write_cache(dirblk, kids)
                put32(self.blocks[dirblk] if dirblk != self.root else self.rootblock, 504, c)
        rec(self.root, tree, ())
        for h, b in self.blocks.items():
            if h in self.meta:
                fix_sum(b)
        # bitmap
        npages = (self.n - 2 + 4063) // 4064
        pages = [self.alloc() for _ in range(npages)]
        nexts = 0 if npages <= 25 else (npages - 25 + 126) // 127
        exts = [self.alloc() for _ in range(nexts)]
        r = self.rootblock
        put32(r, 0, 2); put32(r, 12, 72); put32(r, 312, 0xFFFFFFFF); put32(r, 508, 1)
        r[432] = len(self.volname); r[433:433 + len(self.volname)] = self.volname
        for i, p in enumerate(pages[:25]):
            put32(r, 316 + 4 * i, p)
        rest = pages[25:]
        for k, e in enumerate(exts):
            eb = self.new_block()
            for i, p in enumerate(rest[k * 127:(k + 1) * 127]):
                put32(eb, 4 * i, p)
            put32(eb, 508, exts[k + 1] if k + 1 < len(exts) else 0)
            self.blocks[e] = eb
        put32(r, 416, exts[0] if exts else 0)
        fix_sum(r)
        self.blocks[self.root] = r
        for pi, p in enumerate(pages):
            pb = self.new_block()
            for w in range(127):
                v = 0
                for bit in range(32):
                    blk = 2 + pi * 4064 + w * 32 + bit
                    if blk < self.n and blk not in self.used:
                        v |= 1 << bit
                    elif blk >= self.n and self.rng.random() < 0.5:
                        v |= 1 << bit          # bits beyond the volume are not inspected
                put32(pb, 4 + 4 * w, v)
            fix_sum(pb, 0)
            self.blocks[p] = pb
        boot = bytearray(1024)
        boot[0:4] = b"DOS" + bytes([self.flav])
        out = bytearray(self.n * 512)
        out[0:1024] = boot
        if self.garbage:
            for b_ in range(2, self.n):
                if b_ not in self.used and self.rng.random() < 0.3:
                    out[b_ * 512:(b_ + 1) * 512] = bytes([self.rng.randrange(256)]) * 512
        for b_, data in self.blocks.items():
            out[b_ * 512:(b_ + 1) * 512] = data
        return bytes(out)

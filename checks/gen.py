"""Script generators shared by the checks (all randomness from ctx.rng)."""
from .common import hexs

FLAVOURS = [0, 1, 2, 3, 4, 5]          # OFS/FFS x plain/INTL/DIRCACHE
NAMES_FLAV = {0: "OFS", 1: "FFS", 2: "OFS-INTL", 3: "FFS-INTL", 4: "OFS-DC", 5: "FFS-DC"}


def up_ascii(c):
    return c - 32 if 97 <= c <= 122 else c


def up_intl(c):
    return c - 32 if (97 <= c <= 122) or (224 <= c <= 254 and c != 247) else c


def is_intl(flav):
    return bool(flav & 2) or bool(flav & 4)


def fold(flav, name):
    f = up_intl if is_intl(flav) else up_ascii
    return bytes(f(c) for c in name[:30])


def py_hash(flav, name):
    """third, independent implementation of the AmigaDOS hash (on the name as stored: at most 30 bytes)"""
    f = up_intl if is_intl(flav) else up_ascii
    h = len(name)
    for c in name:
        h = (h * 13 + f(c)) & 0x7ff
    return h % 72


def colliding_names(rng, flav, slot, count, length=(3, 12)):
    out = []
    seen = set()
    tries = 0
    while len(out) < count and tries < 200000:
        tries += 1
        n = bytes(rng.choice(b"abcdefghijklmnopqrstuvwxyzABCXYZ0123456789_.-") for _ in range(rng.randint(*length)))
        if py_hash(flav, n) == slot and fold(flav, n) not in seen:
            seen.add(fold(flav, n))
            out.append(n)
    return out


def dev_create(kind, flav, volname=b"Vol", cyl=None, fill=0):
    """script lines that create + format + close a device and mount it rw; kind: DD, HD, HF:<nblocks>, PART (2 partitions)"""
    L = []
    if kind == "DD":
        L += ["newdev mem 80 2 11 %d" % fill, "mkflop %d %s" % (flav, hexs(volname))]
    elif kind == "HD":
        L += ["newdev mem 80 2 22 %d" % fill, "mkflop %d %s" % (flav, hexs(volname))]
    elif kind.startswith("HF:"):
        n = int(kind[3:])
        L += ["newdev file %d 1 1 %d" % (n, fill), "mkhdf %d %s" % (flav, hexs(volname))]
    elif kind.startswith("PART"):
        # PART:<cyl>:<heads>:<sect>:<start,len;start,len...>
        _, cyl, heads, sect, parts = kind.split(":")
        ps = [tuple(map(int, p.split(","))) for p in parts.split(";")]
        L += ["newdev mem %s %s %s %d" % (cyl, heads, sect, fill),
              "mkhd %d %s" % (len(ps), " ".join("%d %d %d %s" % (s, l, flav[i] if isinstance(flav, (list, tuple)) else flav, hexs(volname + bytes([49 + i])))
                                                for i, (s, l) in enumerate(ps)))]
    L += ["closedev"]
    return L


class Hist:
    """generates a mostly-valid random history and keeps a light model (names only) to aim the operations"""

    def __init__(self, rng, flav, max_handles=4, names=None, big=False, dirs=True):
        self.rng = rng
        self.flav = flav
        self.dirs = {(): {}}          # path tuple -> {folded: (name, kind)}
        self.handles = {}             # h -> (path, name, mode)
        self.hpos = {}                # h -> approximate position
        self.fsize = {}               # (path, folded name) -> approximate size
        self.sizes = {}               # (path, folded) -> approx size
        self.max_handles = max_handles
        self.pool = names or [b"alpha", b"Beta", b"gamma.txt", b"DELTA", b"e", b"file_with_a_long_name_of_30_ch", b"x1", b"x2", b"readme", b"\xe9t\xe9",
                                  # Latin-1 letters at the edges of the ranges the international upper-casing treats (224..254 except 247)
                                  b"\xe0\xfe", b"\xc0\xde", b"\xf7\xff\xdf", b"z\xe1{`"]
        self.big = big
        self.use_dirs = dirs
        self.bs = 512 if flav & 1 else 488

    def path_str(self, p):
        return "/".join(hexs(c) for c in p) if p else "-"

    def pick_dir(self):
        return self.rng.choice(sorted(self.dirs.keys()))

    def pick_name(self, p, existing=None, kind=None):
        d = self.dirs[p]
        if existing is True:
            c = [v for v in d.values() if kind is None or v[1] == kind]
            if c:
                nm = self.rng.choice(sorted(c))[0]
                if self.rng.random() < 0.2:
                    nm = nm.swapcase() if nm.isascii() else nm
                return nm
            return None
        if existing is False:
            c = [n for n in self.pool if fold(self.flav, n) not in d]
            return self.rng.choice(c) if c else None
        return self.rng.choice(self.pool)

    def writer_open(self, p, name):
        f = fold(self.flav, name)
        return any(hp == p and fold(self.flav, hn) == f and "w" in hm for (hp, hn, hm) in self.handles.values())

    def any_open(self, p, name):
        f = fold(self.flav, name)
        return any(hp == p and fold(self.flav, hn) == f for (hp, hn, hm) in self.handles.values())

    def key_of(self, h):
        p, n, m = self.handles[h]
        return (p, fold(self.flav, n))

    def near(self, h):
        """an offset near the interesting points of the file behind handle h: 0, EOF, EOF +- 1, one block beyond EOF, block boundaries"""
        sz = self.fsize.get(self.key_of(h), 0)
        bs = self.bs
        r = self.rng.random()
        if r < 0.5:
            return max(0, self.rng.choice([0, sz - 1, sz, sz + 1, sz + bs - 1, sz + bs, sz - sz % bs, sz - sz % bs - 1, sz + (bs - sz % bs) - 1,
                                           sz + self.rng.randrange(1, bs), sz // 2, self.hpos.get(h, 0) + self.rng.randrange(0, bs)]))
        return self.size_choice()

    def size_choice(self):
        r = self.rng.random()
        bs = self.bs
        if r < 0.25:
            return self.rng.choice([0, 1, bs - 1, bs, bs + 1, 2 * bs, 3 * bs - 1, 5, 100])
        if r < 0.5 and self.big:
            k = self.rng.choice([71, 72, 73, 143, 144, 145])
            return k * bs + self.rng.choice([-1, 0, 1, bs // 2])
        if r < 0.8:
            return self.rng.randrange(0, 6 * bs)
        return self.rng.randrange(0, 40 * bs if self.big else 12 * bs)

    def step(self):
        """one operation -> list of script lines (may be empty)"""
        rng = self.rng
        r = rng.random()
        p = self.pick_dir()
        ps = self.path_str(p)
        d = self.dirs[p]
        if rng.random() < 0.03:
            # a path that leads through a file (empty files too: their block table looks like an empty hash table): every call must fail
            files = sorted(v[0] for v in d.values() if v[1] == "file" and not self.any_open(p, v[0]))
            if files:
                bad = self.path_str(p + (rng.choice(files),))
                nm = hexs(rng.choice(self.pool))
                return [rng.choice(["mkdir %s %s" % (bad, nm), "open 7 %s %s w" % (bad, nm), "lookup %s %s" % (bad, nm), "list %s 0 0" % bad, "rm %s %s" % (bad, nm)])]
        if r < 0.07 and self.use_dirs:          # mkdir (sometimes duplicate)
            nm = self.pick_name(p, existing=False) if rng.random() < 0.8 else self.pick_name(p)
            if nm is None:
                return []
            f = fold(self.flav, nm)
            if f not in d and len(p) < 3:
                d[f] = (nm, "dir")
                self.dirs[p + (nm,)] = {}
            return ["mkdir %s %s" % (ps, hexs(nm))]
        if r < 0.25:                            # open
            free_h = [h for h in range(self.max_handles) if h not in self.handles]
            if not free_h:
                h = rng.choice(sorted(self.handles))
                del self.handles[h]
                return ["close %d" % h]
            h = free_h[0]
            mode = rng.choice(["r", "w", "rw", "w", "rw"])
            nm = self.pick_name(p, existing=True, kind="file") if rng.random() < 0.6 else self.pick_name(p, existing=False)
            if nm is None:
                nm = self.pick_name(p)
            f = fold(self.flav, nm)
            if f in d and d[f][1] == "dir":
                return ["open %d %s %s %s" % (h, ps, hexs(nm), mode)]   # fails, not tracked
            if self.writer_open(p, nm):
                return []                      # a reader beside a writer: what it must see before a flush is unspecified
            if "w" in mode and self.any_open(p, nm):
                mode = "r"
            if f not in d:
                if "w" not in mode:
                    return ["open 7 %s %s r" % (ps, hexs(nm))]           # fails: missing
                d[f] = (nm, "file")
            self.handles[h] = (p, d[f][0], mode)
            self.hpos[h] = 0
            return ["open %d %s %s %s" % (h, ps, hexs(nm), mode)]
        if r < 0.5 and self.handles:            # write
            h = rng.choice(sorted(self.handles))
            n = self.size_choice() if rng.random() < 0.6 else rng.choice([1, 2, 8, self.bs - 1, self.bs, self.bs + 1])
            if "w" in self.handles[h][2]:
                k = self.key_of(h)
                self.hpos[h] = self.hpos.get(h, 0) + n
                self.fsize[k] = max(self.fsize.get(k, 0), self.hpos[h])
            return ["write %d %d %d" % (h, rng.randrange(1, 1 << 30), n)]
        if r < 0.62 and self.handles:
            h = rng.choice(sorted(self.handles))
            n = self.size_choice()
            if "r" in self.handles[h][2]:
                self.hpos[h] = min(self.fsize.get(self.key_of(h), 0), self.hpos.get(h, 0) + n)
            return ["read %d %d" % (h, n)]
        if r < 0.74 and self.handles:
            h = rng.choice(sorted(self.handles))
            pos = self.near(h)
            self.hpos[h] = min(pos, self.fsize.get(self.key_of(h), 0))
            return ["seek %d %d" % (h, pos)]
        if r < 0.80 and self.handles:
            h = rng.choice(sorted(self.handles))
            sz = self.near(h)
            if "w" in self.handles[h][2]:
                self.fsize[self.key_of(h)] = sz
                self.hpos[h] = sz
            return ["trunc %d %d" % (h, sz)]
        if r < 0.84 and self.handles:
            h = rng.choice(sorted(self.handles))
            return ["flush %d" % h]
        if r < 0.90 and self.handles:
            h = rng.choice(sorted(self.handles))
            del self.handles[h]
            return ["close %d" % h]
        if r < 0.94:                            # rm
            nm = self.pick_name(p, existing=True) if rng.random() < 0.85 else self.pick_name(p)
            if nm is None:
                return []
            f = fold(self.flav, nm)
            if f in d:
                if self.any_open(p, nm):
                    return []
                if d[f][1] == "dir":
                    sub = p + (d[f][0],)
                    if self.dirs.get(sub):
                        return ["rm %s %s" % (ps, hexs(nm))]          # not empty: fails
                    self.dirs.pop(sub, None)
                del d[f]
                self.fsize.pop((p, f), None)
            return ["rm %s %s" % (ps, hexs(nm))]
        if r < 0.97:                            # comment / prot
            nm = self.pick_name(p, existing=True)
            if nm is None or self.any_open(p, nm):
                return []
            if rng.random() < 0.5:
                return ["comment %s %s %s" % (ps, hexs(nm), hexs(bytes(rng.choice(b"abc xyz") for _ in range(rng.choice([0, 1, 5, 22, 79, 80])))))]
            return ["prot %s %s %d" % (ps, hexs(nm), rng.choice([0, 0x10, 0x50, 0xf0]))]
        return ["free"]

    def close_all(self):
        L = ["close %d" % h for h in sorted(self.handles)]
        self.handles = {}
        return L

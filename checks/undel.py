"""Undelete scenarios (adfUndelEntry) shared by the history checks (C01/C02/C04/C05 judge the result against the reference
model, the decoder and the bitmap) and by C18 (every device write classified against the ownership map).

The layouts are aimed at the decisions of adfUndelFile / adfUndelDir: every block of the deleted entry (header, data,
extension, cache block of a directory) still free or taken meanwhile by another entry; the extension block below the header
(a hole left by a deleted file) so that a new file takes it first; name taken again; then calls on the undeleted entry and
new allocations next to it."""
from . import gen
from .common import hexs


KINDS = ["plain", "reuse", "hole-intact", "exthole", "dir", "dir-reuse", "dir-clash", "dir-twice", "clash", "twice"]


def scenario(rng, flav, kind=None):
    """returns (setup lines, operation lines, meta); operation lines do not contain judgement points"""
    bs = 512 if flav & 1 else 488
    X, Y, Z, S, B = hexs(b"Xfile"), hexs(b"Yfile"), hexs(b"Zfile"), hexs(b"Small"), hexs(b"bystander")
    kind = kind or rng.choice(["plain", "plain", "reuse", "reuse", "hole-intact", "exthole", "exthole", "dir", "dir-reuse", "dir-clash", "dir-twice", "dir-twice", "clash", "twice"])
    setup = ["open 0 - %s w" % B, "write 0 3 %d" % (5 * bs), "close 0"]
    ops = []
    size = rng.choice([0, 1, bs, 5 * bs, 72 * bs, 72 * bs + 1, 100 * bs, 150 * bs])
    meta = {"scenario": kind, "size": size}
    if kind in ("plain", "twice"):
        setup += ["open 0 - %s w" % X, "write 0 4 %d" % size, "close 0", "comment - %s %s" % (X, hexs(b"note")), "open 0 - %s w" % hexs(b"after"), "write 0 5 %d" % (2 * bs), "close 0"]
        ops += ["lookup - %s" % X, "rm - %s" % X, "undel - L %s" % X]
        if kind == "twice":
            ops += ["undel - L %s" % X, "lookup - %s" % X, "rm - %s" % X, "undel - L %s" % X]
    elif kind == "reuse":
        # a new file takes the lowest free blocks: the header (and data) of the deleted one
        setup += ["open 0 - %s w" % X, "write 0 4 %d" % size, "close 0"]
        ysize = rng.choice([0, 0, bs, 3 * bs, size])
        ops += ["lookup - %s" % X, "rm - %s" % X, "open 1 - %s w" % Y, "write 1 6 %d" % ysize, "close 1", "undel - L %s" % X]
    elif kind == "hole-intact":
        # the new file fits into the hole of another deleted file: every block of X is still free
        setup += ["open 0 - %s w" % S, "write 0 2 %d" % (2 * bs), "close 0", "open 0 - %s w" % X, "write 0 4 %d" % size, "close 0"]
        ops += ["lookup - %s" % X, "rm - %s" % S, "rm - %s" % X, "open 1 - %s w" % Y, "write 1 6 %d" % rng.choice([0, bs, 2 * bs]), "close 1", "undel - L %s" % X]
    elif kind == "exthole":
        # X's extension block goes into the hole left by S, below X's header; a new empty file then takes exactly that block
        k = rng.choice([1, 1, 2])
        setup += ["open 0 - %s w" % S, "write 0 2 %d" % ((k - 1) * bs + 1) if k > 1 else "write 0 2 0", "close 0",
                  "open 0 - %s w" % X, "write 0 4 %d" % (72 * bs), "close 0", "rm - %s" % S,
                  "open 0 - %s rw" % X, "seek 0 %d" % (72 * bs), "write 0 8 %d" % rng.choice([1, bs, 30 * bs]), "close 0"]
        ops += ["lookup - %s" % X, "rm - %s" % X, "open 1 - %s w" % Y, "close 1", "undel - L %s" % X]
    elif kind in ("dir", "dir-reuse", "dir-clash", "dir-twice"):
        D = hexs(b"Xdir")
        setup += ["mkdir - %s" % D]
        ops += ["lookup - %s" % D, "rm - %s" % D]
        if kind == "dir-reuse":
            ops += [rng.choice(["mkdir - %s" % hexs(b"Ydir"), "open 1 - %s w" % Y + "\nclose 1"])]
            ops = [l for o in ops for l in o.split("\n")]
        if kind == "dir-clash":
            # the name is taken again by an entry that lives in a hole left by another one: the blocks of D are still free
            setup.insert(len(setup) - 1, "mkdir - %s" % S)
            ops += ["rm - %s" % S, "open 1 - %s w" % D, "close 1"]
            ops.remove("rm - %s" % S)
            ops.insert(1, "rm - %s" % S)
        if kind == "dir-twice":
            # the undelete is repeated on the directory that is live again (refused: nothing may change, in particular not its bitmap bit)
            ops += ["undel - L %s" % D, "mkdir %s %s" % (D, hexs(b"kept")), "undel - L %s" % D]
        ops += ["undel - L %s" % D, "mkdir %s %s" % (D, hexs(b"inner")), "open 2 %s %s w" % (D, hexs(b"f")), "write 2 3 %d" % bs, "close 2"]
        X = D
    else:   # clash: the name is taken again
        setup += ["open 0 - %s w" % S, "write 0 2 %d" % bs, "close 0", "open 0 - %s w" % X, "write 0 4 %d" % size, "close 0"]
        ops += ["lookup - %s" % X, "rm - %s" % S, "rm - %s" % X, "open 1 - %s w" % X, "close 1", "undel - L %s" % X]
    # afterwards: use the undeleted entry and allocate next to it
    tail = []
    if not kind.startswith("dir"):
        r = rng.random()
        if r < 0.35:
            tail += ["open 3 - %s rw" % X, "seek 3 %d" % size, "write 3 9 %d" % rng.choice([1, bs, 3 * bs]), "close 3"]
        elif r < 0.6:
            tail += ["rm - %s" % X]
        elif r < 0.75:
            tail += ["open 3 - %s rw" % X, "trunc 3 %d" % rng.choice([0, size // 2]), "close 3"]
    tail += ["open 4 - %s w" % Z, "write 4 7 %d" % rng.choice([0, bs, 4 * bs]), "close 4", "mkdir - %s" % hexs(b"newdir")]
    if rng.random() < 0.5:
        tail += ["lookup - %s" % X, "list - 0 0"]
    return setup, ops + tail, meta


def history(ctx, kind=None, flav=None):
    """history for hist.run_history: judgement points after the undelete and after the follow-up calls, with and without remount"""
    rng = ctx.rng
    flav = rng.choice(gen.FLAVOURS) if flav is None else flav
    setup, ops, meta = scenario(rng, flav, kind)
    meta["flavour"] = flav
    L = gen.dev_create("DD", flav) + ["mountdev 0", "mount 0 0"] + setup
    k = 0
    for cmd in ops:
        L.append(cmd)
        if cmd.startswith("undel "):
            k += 1
            L += ["free", "dump $W/img%d" % k, "spectree"]
    k += 2
    L += ["free", "dump $W/img%d" % (k - 1), "spectree", "umount", "umountdev", "dump $W/img%d" % k, "spectree", "mountdev 0", "mount 0 0", "free", "list - 0 0", "list - 1 0", "umount", "umountdev"]
    return L, 0, 1760, meta

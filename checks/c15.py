"""C15 Name matching.
(a) proofs about the regenerated adfToUpper / adfIntlToUpper / adfGetHashValue (Props/Properties_C15.v)
(b) leaf level: all 256 bytes, and hashes of boundary/random names: compiled C vs regenerated Gallina vs the Coq spec (extracted)
(c) API level on all flavours: create N, then lookup / open / mkdir / rename-to M must behave as `same_name` says;
    every listed name re-opens its entry; names longer than 30 bytes."""
import os
from . import common, gen
from .common import hexs

NEEDED = ["adfToUpper", "adfIntlToUpper", "adfGetHashValue"]
BOUNDARY = [0x01, 0x20, 0x2e, 0x40, 0x41, 0x5a, 0x5b, 0x60, 0x61, 0x7a, 0x7b, 0x7f, 0x80, 0xbf, 0xc0, 0xd6, 0xd7, 0xd8, 0xde, 0xdf,
            0xe0, 0xf6, 0xf7, 0xf8, 0xfe, 0xff]


def name_pairs(ctx):
    rng = ctx.rng
    pairs = []
    bs = BOUNDARY if ctx.tier == "quick" else [b for b in range(1, 256) if b not in (0x2f, 0x3a)]
    if ctx.tier == "quick":
        for a in bs:
            for b in bs:
                if (a, b) in [(a, a)] or rng.random() < 0.12 or gen.up_intl(a) == gen.up_intl(b):
                    pairs.append((bytes([a]), bytes([b])))
    else:
        for a in bs:
            for b in bs:
                if gen.up_intl(a) == gen.up_intl(b) or rng.random() < 0.02:
                    pairs.append((bytes([a]), bytes([b])))
    # single-byte differences inside longer names, lengths around the 30-byte limit
    for ln in (2, 5, 29, 30, 31, 35, 40):
        for _ in range(6 if ctx.tier == "quick" else 40):
            n = bytes(rng.choice([c for c in range(0x21, 0x100) if c not in (0x2f, 0x3a)]) for _ in range(ln))
            pos = rng.randrange(ln)
            c = n[pos]
            alts = [gen.up_intl(c), c ^ 0x20, (c + 1) % 256 or 1, 0xf7, 0xd7]
            m = bytearray(n)
            m[pos] = rng.choice([a for a in alts if a not in (0, 0x2f, 0x3a)])
            pairs.append((n, bytes(m)))
            pairs.append((n, n[:30]))
            pairs.append((n, n.swapcase() if n.isascii() else n))
            if ln > 30:
                m2 = bytearray(n)
                m2[rng.randrange(30, ln)] ^= 1
                pairs.append((n, bytes(m2)))          # differ only beyond byte 30
    return pairs


def same(flav, a, b):
    return gen.fold(flav, a) == gen.fold(flav, b)


def run(ctx):
    proof = common.proof_status(ctx)
    tf = common.translator_failures(ctx, NEEDED)
    if tf:
        proof["problems"].append("translator could not translate: %s" % tf)
    rng = ctx.rng
    # block-level correspondence of the directory model the lookup / duplicate theorems are about
    from . import chaincorr
    chaincorr.run(ctx, 30 if ctx.tier == "quick" else 400)
    # (b) leaf level
    lines = []
    for c in range(256):
        lines += ["adfToUpper %d" % c, "adfIntlToUpper %d" % c]
    names = [bytes([c]) for c in BOUNDARY]
    for _ in range(300 if ctx.tier == "quick" else 5000):
        ln = rng.choice([1, 2, 3, 8, 29, 30, 31, 32, 40, 60])
        names.append(bytes(rng.choice([c for c in range(1, 256)]) for _ in range(ln)))
    for n in names:
        for intl in (0, 1):
            lines.append("adfGetHashValue %d %s" % (intl, hexs(n)))
    text = "\n".join(lines) + "\n"
    rc, cout, _ = common.run_lines(ctx.bin("leafh"), text)
    cres = cout.splitlines()
    have_model = os.path.exists(ctx.ocaml("leafm"))
    if have_model:
        _, mout, _ = common.run_lines(ctx.ocaml("leafm"), text)
        for a, b in zip(cres, mout.splitlines()):
            if a != b:
                ctx.fail("corr", "generated Gallina and compiled C disagree", a.split(" = ")[0], expected=b, actual=a, stream="leaf")
                break
        # the python oracle used below is cross-checked against the Coq spec
        sq = []
        for n in names[:200]:
            for intl in (0, 1):
                sq += ["spec_fold %d %s" % (intl, hexs(n)), "spec_hash %d %s" % (intl, hexs(n))]
        _, sout, _ = common.run_lines(ctx.ocaml("leafm"), "\n".join(sq) + "\n")
        sres = [l.partition(" = ")[2] for l in sout.splitlines()]
        k = 0
        for n in names[:200]:
            for intl in (0, 1):
                flav = 2 if intl else 0
                if sres[k] != hexs(gen.fold(flav, n)) or int(sres[k + 1]) != gen.py_hash(flav, n[:30]):
                    proof["problems"].append("python oracle disagrees with the Coq spec on %r" % (n,))
                k += 2
    for l in cres:
        lhs, _, rhs = l.partition(" = ")
        t = lhs.split()
        ctx.count(lhs)
        ctx.bump("leaf:" + t[0])
        if t[0] == "adfToUpper" and int(rhs) != gen.up_ascii(int(t[1])):
            ctx.fail("oracle", "adfToUpper differs from the AmigaDOS table", {"byte": int(t[1])}, expected=gen.up_ascii(int(t[1])), actual=int(rhs))
        if t[0] == "adfIntlToUpper" and int(rhs) != gen.up_intl(int(t[1])):
            ctx.fail("oracle", "adfIntlToUpper differs from the AmigaDOS table", {"byte": int(t[1])}, expected=gen.up_intl(int(t[1])), actual=int(rhs))
        if t[0] == "adfGetHashValue":
            n = bytes.fromhex(t[2]) if t[2] != "-" else b""
            flav = 2 if int(t[1]) else 0
            exp = gen.py_hash(flav, n[:30])
            if int(rhs) != exp:
                ctx.fail("oracle", "adfGetHashValue differs from the AmigaDOS hash of the (30-byte) name", {"name": t[2], "intl": int(t[1])}, expected=exp, actual=int(rhs))
    # (c) API level
    pairs = name_pairs(ctx)
    flavs = gen.FLAVOURS
    other = b"zz-other"
    for flav in flavs:
        L = gen.dev_create("DD", flav) + ["mountdev 0", "mount 0 0"]
        checks = []     # (line index, kind, N, M)
        for (N, M) in pairs:
            d = hexs(b"d")
            L.append("mkdir - %s" % d)
            L.append("open 0 %s %s w" % (d, hexs(N)))
            cN = len(L)
            L += ["write 0 3 7", "close 0"]
            L.append("lookup %s %s" % (d, hexs(M))); checks.append((len(L), "lookup", N, M))
            L.append("open 1 %s %s rw" % (d, hexs(M))); checks.append((len(L), "openrw", N, M))
            L.append("close 1")
            L.append("mkdir %s %s" % (d, hexs(M))); checks.append((len(L), "mkdir", N, M))
            L.append("open 2 %s %s w" % (d, hexs(other)))
            L.append("close 2")
            L.append("mv %s %s %s %s" % (d, hexs(other), d, hexs(M))); checks.append((len(L), "mvdup", N, M))
            L.append("list %s 0 0" % d); checks.append((len(L), "list", N, M))
            # cleanup whatever exists
            for nm in (N, M, other):
                L.append("rm %s %s" % (d, hexs(nm)))
            L.append("rm - %s" % d)
            checks.append((len(L), "cleanup", N, M))
        L += ["list - 0 0", "umount", "umountdev"]
        script = "\n".join(L) + "\n"
        rc, out, err, wd = common.run_script(ctx, script, timeout=600)
        res = common.parse_results(out)
        if rc != 0:
            ctx.fail("crash", "harness exit %d in name-matching run (flavour %d)" % (rc, flav), {"script_tail": L[-12:], "flavour": flav}, actual=(out[-3:], err[-300:]))
            continue
        for (li, kind, N, M) in checks:
            r = res.get(li) or ["?"]
            st = r[-1]
            sm = same(flav, N, M)
            key = (flav, kind, N, M)
            ctx.count(key)
            ctx.bump("api:" + kind)
            inp = {"flavour": flav, "N": hexs(N), "M": hexs(M), "op": kind}
            if kind == "lookup":
                if st.startswith("ok") != sm:
                    ctx.fail("oracle", "lookup of M after creating N: %s, but the names are %s under AmigaDOS folding" % ("found" if st.startswith("ok") else "not found", "equal" if sm else "different"), inp,
                             expected="found" if sm else "not found", actual=st)
            elif kind == "openrw":
                if not st.startswith("ok"):
                    ctx.fail("oracle", "open-for-write of M failed", inp, expected="ok", actual=st)
                else:
                    size = int(common.kv(st)[1].get("size", -1))
                    if sm and size != 7:
                        ctx.fail("oracle", "opening M for writing did not open the existing entry N (second entry created)", inp, expected="size=7", actual=st)
                    if not sm and size != 0:
                        ctx.fail("oracle", "opening a different name M opened N", inp, expected="size=0", actual=st)
            elif kind == "mkdir":
                # M exists in any case now (either N itself or the file created by openrw)
                if st.startswith("ok"):
                    ctx.fail("oracle", "mkdir M succeeded although an entry matching M exists", inp, expected="err", actual=st)
            elif kind == "mvdup":
                if st.startswith("ok"):
                    ctx.fail("oracle", "rename to M succeeded although an entry matching M exists", inp, expected="err", actual=st)
            elif kind == "list":
                ents = [common.kv(x)[1] for x in r if x.startswith("E ")]
                want = 2 if sm else 3
                if len(ents) != want:
                    ctx.fail("oracle", "directory lists %d entries, expected %d" % (len(ents), want), inp, expected=want, actual=[e.get("name") for e in ents])
                for e in ents:
                    nm = bytes.fromhex(e["name"]) if e.get("name", "-") != "-" else b""
                    if nm not in (N[:30], M[:30], other):
                        ctx.fail("oracle", "listing reports a name that was never created", inp, expected=[hexs(N[:30]), hexs(M[:30])], actual=e.get("name"))
        if flav == 0:
            ctx.sample({"pair": [hexs(pairs[0][0]), hexs(pairs[0][1])], "ops": "create N; lookup/open-rw/mkdir/rename-to M; list; cleanup"})
        # listed names re-open their entries: separate pass
        L = gen.dev_create("DD", flav) + ["mountdev 0", "mount 0 0"]
        some = [p[0] for p in pairs if len(p[0]) > 1][: (8 if flav >= 4 else 40)]
        uniq = {}
        for n in some:
            uniq.setdefault(gen.fold(flav, n), n)
        # names at the 30-byte limit: exactly 30 bytes next to its own 29-byte prefix, and one longer than the limit
        long30 = b"a_name_of_exactly_thirty_bytes"
        for n in (long30, long30[:29], b"longer_than_the_limit_" + b"0123456789abcd"):
            uniq.setdefault(gen.fold(flav, n[:30]), n)
        some = list(uniq.values())
        for i, n in enumerate(some):
            L += ["open 0 - %s w" % hexs(n), "write 0 %d %d" % (i + 1, i + 1), "close 0"]
        # on directory-cache volumes the listing served from the cache blocks is held to the same standard
        L.append("list - 0 0")
        li_list = len(L)
        if flav >= 4:
            L.append("list - 1 0")
        rc, out, err, wd = common.run_script(ctx, "\n".join(L) + "\n", timeout=300)
        res = common.parse_results(out)
        ents = [common.kv(x)[1] for x in res.get(li_list, []) if x.startswith("E ")]
        if flav >= 4:
            cents = [common.kv(x)[1] for x in res.get(li_list + 1, []) if x.startswith("E ")]
            if sorted(e["name"] for e in cents) != sorted(e["name"] for e in ents):
                ctx.fail("oracle", "the listing served from the directory cache reports other names than the hash-table listing", {"flavour": flav, "script": L},
                         expected=sorted(e["name"] for e in ents), actual=sorted(e["name"] for e in cents))
            ents = ents + cents
        L2 = list(L)
        chk = []
        for e in ents:
            L2.append("open 1 - %s r" % e["name"])
            chk.append((len(L2), e))
            L2.append("close 1")
        rc, out, err, wd = common.run_script(ctx, "\n".join(L2) + "\numount\numountdev\n", timeout=300)
        res = common.parse_results(out)
        if len(ents) != len(some) * (2 if flav >= 4 else 1):
            ctx.fail("oracle", "listing shows %d entries after creating %d distinct names" % (len(ents), len(some)), {"flavour": flav, "script": L}, expected=len(some), actual=len(ents))
        for (li, e) in chk:
            st = (res.get(li) or ["?"])[0]
            ctx.count((flav, "reopen", e["name"]))
            ctx.bump("api:reopen-listed")
            if not st.startswith("ok") or common.kv(st)[1].get("hdr") != e["sect"]:
                ctx.fail("oracle", "the name reported by the listing does not open the entry it was listed for", {"flavour": flav, "listed": e["name"], "script": L2},
                         expected="ok hdr=%s" % e["sect"], actual=st)
    rule = ("leaf: all 256 bytes for both folding tables, hashes of boundary and random names (length 1..60); API: (N,M) pairs - boundary/all bytes squared "
            "restricted to equal-fold pairs plus a random sample, single-byte differences inside names of length 2..40 incl. beyond byte 30 - on all 6 flavours; "
            "distinct = distinct (flavour, operation, N, M); non-trivial = all")
    return common.finish(ctx, proof, rule,
                         assumptions=["toupper() is evaluated in the C locale (the harness never calls setlocale)",
                                      "names contain no NUL, '/' or ':' (documented envelope)"])


def replay(ctx, rep):
    print(rep.get("failure"))
    return 0

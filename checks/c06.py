"""C06 Read compatibility: ADFlib agrees with an independent decoder on any well-formed image.
Images are written by checks/mkimage.py (no ADFlib code: random block placement, fragmented files, random hash-chain
order, garbage in free blocks, Latin-1 names, hard links to files and directories, directory cache) and by AmigaDOS
(regtests/Dumps).  The Coq decoder (Spec/Decode.v, extracted) first confirms the image is well formed and yields tree,
metadata and bytes; the library then lists (hash tables and cache), opens, seeks and reads at random (offset, length)."""
import glob, os, subprocess
from . import common, gen, hist, mkimage
from .common import hexs


def fnv(b):
    h = 2166136261
    for x in b:
        h = ((h ^ x) * 16777619) & 0xFFFFFFFF
    return "%08x" % h


def random_tree(rng, flav, depth=0):
    t = {}
    bs = 512 if flav & 1 else 488
    names = [b"a", b"Readme.txt", b"\xe9t\xe9", b"UPPER", b"lower", b"thirty characters name 01234567", b"x.y", b"data.bin", b"\xc4\xd6\xdc", b"f 1",
             # Latin-1 bytes at the edges of the international upper-casing: 0xE0 / 0xFE fold, 0xF7 (division sign) and 0xFF do not, 0xDF / 0xD7 stay
             b"\xffile", b"\xe0\xfe", b"\xf7\xd7", b"\xdf\xde`{", b"z\xff\xf7"]
    rng.shuffle(names)
    for nm in names[: rng.randint(2, 7)]:
        nm = nm[:30]
        if gen.fold(flav, nm) in [gen.fold(flav, k) for k in t]:
            continue
        r = rng.random()
        if r < 0.25 and depth < 2:
            t[nm] = random_tree(rng, flav, depth + 1)
        else:
            size = rng.choice([0, 1, bs - 1, bs, bs + 1, 5 * bs + 3, 72 * bs, 72 * bs + 1, 73 * bs, 100 * bs + 17, 145 * bs])
            if depth > 0:
                size = min(size, 20 * bs + 5)
            t[nm] = [bytes(rng.randrange(256) for _ in range(size)) if size < 3000 else (bytes(rng.randrange(256) for _ in range(997)) * (size // 997 + 1))[:size],
                     rng.choice([0, 0, 0x10, 0xf0]), bytes(rng.choice(b"abc xyz") for _ in range(rng.choice([0, 0, 5, 79])))]
    return t


def exact_fit_tree(rng, flav):
    """a directory whose cache records fill a cache block to its LAST byte: record length = 25 + name + comment, padded to even; names and
    comments are chosen so that the lengths add up to exactly 488 and the last record needs no padding byte (the writer packs the blocks)"""
    sub = {}
    used = 0
    i = 0
    while True:
        left = 488 - used
        if left == 0:
            break
        if left < 26 + 1 or (left > 56 and rng.random() < 0.8):
            nl = rng.choice([5, 7, 15, 15, 23])
        else:
            nl = None
        if nl is not None and 488 - used - (25 + nl + ((25 + nl) & 1)) >= 26:
            rl = 25 + nl + ((25 + nl) & 1)
            cm = b""
        else:
            # the record that closes the block: name + comment sized to end exactly at byte 488, unpadded length even
            if left & 1 or left < 26 or left > 25 + 30 + 79:
                # cannot close here: start over
                sub, used, i = {}, 0, 0
                continue
            nl = min(30, max(1, left - 25 - rng.choice([0, 0, 4])))
            cm = b"c" * (left - 25 - nl)
            rl = left
        nm = (b"e%02d_" % i + b"abcdefghijklmnopqrstuvwxyz0123")[:nl]
        if rng.random() < 0.25 and not cm:
            sub[nm] = {}
        else:
            sub[nm] = [bytes(rng.randrange(256) for _ in range(rng.choice([0, 10, 700]))), 0, cm]
        used += rl
        i += 1
    return {b"full": sub, b"other": [b"xyz", 0, b""]}


def add_links(rng, t, path=()):
    files = []

    def walk(sub, p):
        for k, v in sub.items():
            if isinstance(v, dict):
                files.append((p + (k,), True))
                walk(v, p + (k,))
            elif isinstance(v, list):
                files.append((p + (k,), False))
    walk(t, ())
    for i in range(rng.randint(0, 2)):
        if files:
            tgt, isdir = rng.choice(files)
            t[b"lnk%d" % i] = ("link", tgt)
    return t


def flatten(t, p=()):
    out = {}
    for k, v in t.items():
        if isinstance(v, dict):
            out[p + (k,)] = ("dir", None)
            out.update(flatten(v, p + (k,)))
        elif isinstance(v, list):
            out[p + (k,)] = ("file", v)
        else:
            out[p + (k,)] = ("link", v[1])
    return out


def check_image(ctx, img_path, n, flav, known=None, label="mkimage", meta=None):
    """known: {path tuple: ('file', [content, prot, comment]) | ('dir', None) | ('link', target path)} or None (use decoder only)"""
    rng = ctx.rng
    dec = hist.decode_image(ctx, img_path, 0, n, strict=False)
    inp = {"image": label, "meta": meta}
    if not dec["ok"]:
        if known is not None:
            ctx.notes.append("image writer produced an image the decoder rejects (%s): generator problem, image skipped" % dec["raw"])
        return
    # expected listing from the decoder
    dtree = {}
    for (p, kind, f) in dec["tree"]:
        dtree[tuple(p.split("/"))] = (kind, f)
    ps = lambda p: "/".join(p) if p else "-"
    as_file = bool(meta and meta.get("extra_cylinders"))
    L = ["loaddev %s %s" % ("mem" if n in (1760, 3520) and not as_file else "file", img_path), "mountdev 1", "mount 0 1", "list - 0 1"]
    li_hash = len(L)
    if flav & 4:
        L.append("list - 1 1")
    li_cache = len(L)
    reads = []
    files = [(p, f) for p, (kind, f) in dtree.items() if kind == "F"]
    for (p, f) in files:
        size = int(f["size"])
        L.append("open 0 %s %s r" % (ps(p[:-1]), p[-1]))
        lo = len(L)
        reqs = []
        for _ in range(4):
            off = rng.choice([0, max(0, size - 1), size, size // 2, rng.randrange(0, size + 1)])
            ln = rng.choice([1, 100, 488, 512, 1024, size + 5, rng.randrange(1, size + 2)])
            L.append("seek 0 %d" % off)
            L.append("read 0 %d" % ln)
            reqs.append((len(L), off, ln))
            L.append("hstate 0")
        # every data block of the file is reached by a seek of its own (wherever the writer put it: block 2, the last block ...)
        bs_ = 512 if flav & 1 else 488
        nblk = (size + bs_ - 1) // bs_
        order = list(range(nblk))
        rng.shuffle(order)
        for kb in order[:260]:
            off = kb * bs_ + rng.choice([0, 0, 1, bs_ - 1])
            L.append("seek 0 %d" % off)
            L.append("read 0 3")
            reqs.append((len(L), off, 3))
        L.append("close 0")
        reads.append((p, f, lo, reqs))
    # links: open through a link to a file, cd through a link to a directory
    links = [(p, f) for p, (kind, f) in dtree.items() if kind == "L"]
    link_checks = []
    for (p, f) in links:
        tgt = [q for q, (k2, f2) in dtree.items() if f2.get("hdr") == f.get("real")]
        if not tgt:
            continue
        tk, tf = dtree[tgt[0]]
        if tk == "F" and f.get("sectype") == "-4":
            L.append("open 1 %s %s r" % (ps(p[:-1]), p[-1]))
            L.append("read 1 %d" % (int(tf["size"]) + 10))
            link_checks.append((len(L), "file", tf))
            L.append("close 1")
        elif tk == "D" and f.get("sectype") == "4":
            L.append("list %s 0 0" % ps(p))
            link_checks.append((len(L), "dir", tgt[0]))
    L += ["umount", "umountdev"]
    rc, out, err, wd = common.run_script(ctx, "\n".join(L) + "\n", timeout=120)
    res = common.parse_results(out)
    ctx.count((label, img_path if known is None else hash(str(meta))))
    ctx.bump("image:" + label)
    if rc != 0:
        ctx.fail("crash", "harness exit %d reading a well-formed image" % rc, dict(inp, script=L), actual=(out[-3:], err[-300:]))
        return
    # listing vs decoder
    for (li, which) in ((li_hash, "hash tables"),) + (((li_cache, "directory cache"),) if flav & 4 else ()):
        got = {}
        stack = []
        for l in res.get(li, []):
            if l.startswith("E "):
                t = l.split()
                d = common.kv(" ".join(["x"] + t[2:]))[1]
                depth = int(t[1])
                stack = stack[:depth] + [d["name"]]
                got[tuple(stack)] = d
        exp = {p: (k, f) for p, (k, f) in dtree.items()}
        if which == "directory cache":
            pass
        if set(got) != set(exp):
            ctx.fail("oracle", "listing (%s) names differ from the decoded tree" % which, dict(inp, script=L),
                     expected=sorted("/".join(p) for p in exp), actual=sorted("/".join(p) for p in got))
            continue
        for p, d in got.items():
            k, f = exp[p]
            if k == "F" and (d["size"] != f["size"] or d["acc"] != f["prot"] or d["cmt"] != f["cmt"] or d["type"] != "-3"):
                ctx.fail("oracle", "file metadata in the listing (%s) differs from the decoder" % which, dict(inp, script=L, path="/".join(p)), expected=f, actual=d)
            if k == "D" and (d["acc"] != f["prot"] or d["cmt"] != f["cmt"] or d["type"] != "2"):
                ctx.fail("oracle", "directory metadata in the listing (%s) differs from the decoder" % which, dict(inp, script=L, path="/".join(p)), expected=f, actual=d)
            if k == "L" and which == "hash tables" and d.get("real") != f.get("real"):
                ctx.fail("oracle", "link target in the listing differs from the decoder", dict(inp, script=L, path="/".join(p)), expected=f, actual=d)
    # reads vs content
    for (p, f, lo, reqs) in reads:
        size = int(f["size"])
        o = (res.get(lo) or ["?"])[0]
        if not o.startswith("ok") or common.kv(o)[1].get("size") != f["size"]:
            ctx.fail("oracle", "open of a file present in the decoded tree failed or reports another size", dict(inp, script=L, path="/".join(p)), expected="ok size=%s" % f["size"], actual=o)
            continue
        content = None
        if known is not None:
            kp = tuple(bytes.fromhex(c) for c in p)
            kk = known.get(kp)
            if kk and kk[0] == "file":
                content = kk[1][0]
                if fnv(content) != f["fnv"]:
                    ctx.notes.append("decoder content differs from what the image writer stored for %s" % (p,))
                    content = None
        for (li, off, ln) in reqs:
            r = (res.get(li) or ["?"])[0]
            d = common.kv(r)[1]
            eo = min(off, size)
            en = max(0, min(ln, size - eo))
            ctx.evaluations += 1
            if not r.startswith("ok") or int(d.get("n", -1)) != en or int(d.get("pos", -1)) != eo + en:
                ctx.fail("oracle", "read at (offset %d, length %d) of a %d-byte file returns a wrong count/position" % (off, ln, size), dict(inp, script=L, path="/".join(p)),
                         expected="n=%d pos=%d" % (en, eo + en), actual=r)
            elif content is not None and d.get("fnv") != fnv(content[eo:eo + en]):
                ctx.fail("oracle", "bytes read at (offset %d, length %d) differ from the stored content" % (off, ln), dict(inp, script=L, path="/".join(p)),
                         expected=fnv(content[eo:eo + en]), actual=d.get("fnv"))
            elif content is None and eo == 0 and en == size and d.get("fnv") != f["fnv"]:
                ctx.fail("oracle", "whole-file read differs from the decoder's content", dict(inp, script=L, path="/".join(p)), expected=f["fnv"], actual=d.get("fnv"))
    # the file handle model on an image ADFlib did not write (Props/Properties_C06.v: open_image / read_image_slice): the model, loaded with the
    # blocks the file's tables lead to, is run on the same open / seek / read calls; results and struct AdfFile fields must agree
    model_tie(ctx, img_path, flav, reads, res, inp, L)
    for (li, kind, tgt) in link_checks:
        r = (res.get(li) or ["?"])
        if kind == "file":
            d = common.kv(r[0])[1]
            if not r[0].startswith("ok") or d.get("fnv") != tgt["fnv"]:
                ctx.fail("oracle", "reading through a hard link to a file does not give the target's bytes", dict(inp, script=L), expected=tgt["fnv"], actual=r[0])
        else:
            names = sorted(common.kv(x)[1]["name"] for x in r if x.startswith("E "))
            exp = sorted(p[-1] for p in dtree if p[:-1] == tgt)
            if names != exp:
                ctx.fail("oracle", "listing through a hard link to a directory differs from the target directory", dict(inp, script=L), expected=exp, actual=names)


def model_tie(ctx, img_path, flav, reads, res, inp, L):
    import subprocess
    from . import fileiocorr
    ofs = not (flav & 1)
    bs = 488 if ofs else 512
    for (p, f, lo, reqs) in reads[:8]:
        hdr = f.get("hdr")
        if hdr is None or not (res.get(lo) or ["?"])[0].startswith("ok"):
            continue
        ML = ["load %s %s" % (img_path, hdr), "open %s 1 0" % hdr]
        for (li, off, ln) in reqs:
            ML += ["seek %d" % off, "read %d" % ln]
        pr = subprocess.run([fileiocorr.model_bin(ctx), "fileio", str(bs), "1" if ofs else "0"], input="\n".join(ML) + "\n", stdout=subprocess.PIPE, text=True,
                            preexec_fn=common.big_stack)
        mo = pr.stdout.splitlines()
        if len(mo) != 3 * len(ML):
            ctx.fail("corr", "model driver produced %d lines for %d calls on a foreign image" % (len(mo), len(ML)), dict(inp, model_input=ML), expected=3 * len(ML), actual=len(mo))
            return
        det = dict(inp, script=L, path="/".join(p), model_input=ML)
        if not mo[3].startswith("r ok"):
            ctx.fail("corr", "Model/FileIO cannot open a file of a well-formed foreign image that the library opens", det, expected="r ok", actual=mo[3])
            continue
        for qi, (li, off, ln) in enumerate(reqs):
            ms, mr, mstate = mo[3 * (2 + 2 * qi)], mo[3 * (3 + 2 * qi)], mo[3 * (3 + 2 * qi) + 1]
            rs = (res.get(li - 1) or ["?"])[0]
            rr = (res.get(li) or ["?"])[0]
            ctx.bump("model_tie_calls")
            st, kv = common.kv(rs)
            mst, mkv = common.kv(ms[2:])
            if (st, kv.get("pos"), kv.get("size"), kv.get("eof")) != (mst, mkv.get("pos"), mkv.get("size"), mkv.get("eof")):
                ctx.fail("corr", "seek to %d on a foreign image: result differs from Model/FileIO" % off, det, expected=ms, actual=rs)
                break
            st, kv = common.kv(rr)
            mkv = common.kv(mr)[1]
            want = {k: mkv.get(k) for k in ("n", "fnv", "pos", "size", "eof")}
            got = {k: kv.get(k) for k in want}
            if st != "ok" or want != got:
                ctx.fail("corr", "read of %d bytes at %d on a foreign image: result differs from Model/FileIO" % (ln, off), det, expected=mr, actual=rr)
                break
            hs = (res.get(li + 1) or ["?"])[0]
            if hs.startswith("ok") and "pinx=" in hs:
                hst, hkv = common.kv(hs)
                skv = common.kv(mstate)[1]
                fields = fileiocorr.H_FIELDS + (fileiocorr.OFS_FIELDS if ofs else []) + ["xkey"]
                if hkv.get("xkey") not in (None, "-1"):
                    fields = fields + fileiocorr.X_FIELDS
                diff = sorted(k for k in fields if skv.get(k) != hkv.get(k))
                ctx.bump("model_tie_states")
                if diff:
                    ctx.fail("corr", "struct AdfFile after seek+read on a foreign image differs from Model/FileIO in %s" % ",".join(diff), det, expected=mstate, actual=hs)
                    break


def run(ctx):
    proof = common.proof_status(ctx)
    rng = ctx.rng
    n_img = 72 if ctx.tier == "quick" else 1500
    jobs = []
    for i in range(n_img):
        flav = rng.choice(gen.FLAVOURS)
        n = rng.choice([1760, 1760, 3520, 4200])
        pol = rng.choice(["random", "random", "reverse", "interleave", "data-low"])
        tree = add_links(rng, random_tree(rng, flav))
        im = mkimage.Image(n, flav, rng, policy=pol, garbage=rng.random() < 0.8)
        try:
            data = im.build(tree)
        except IndexError:
            continue        # tree does not fit
        path = os.path.join(ctx.work, "c06_%d.img" % i)
        # DD floppy dumps made with 81..83 cylinders (a common habit of disk imagers; the library classifies them as DD floppies):
        # the volume is the usual 80-cylinder one, the extra cylinders hold whatever the imager read
        extra = rng.choice([0, 0, 1, 2, 3]) if n == 1760 else 0
        with open(path, "wb") as f:
            f.write(data)
            f.write(bytes(rng.randrange(256) for _ in range(512)) * (22 * extra))
        jobs.append((path, n, flav, flatten(tree), {"flavour": flav, "blocks": n, "policy": pol, "entries": len(flatten(tree)), "extra_cylinders": extra}))
        if len(ctx.samples) < 2:
            ctx.sample({"flavour": flav, "blocks": n, "policy": pol, "names": [hexs(k) for k in tree]})

    # directed: cache blocks filled to their last byte (the packing writer), both cache flavours
    for i in range(6 if ctx.tier == "quick" else 80):
        flav = rng.choice([4, 5])
        tree = exact_fit_tree(rng, flav)
        im = mkimage.Image(1760, flav, rng, policy=rng.choice(["random", "reverse"]), garbage=True, pack_cache=True)
        data = im.build(tree)
        path = os.path.join(ctx.work, "c06_fit_%d.img" % i)
        open(path, "wb").write(data)
        jobs.append((path, 1760, flav, flatten(tree), {"flavour": flav, "blocks": 1760, "policy": "exact-fit cache block", "entries": len(flatten(tree))}))

    def one(j):
        path, n, flav, known, meta = j
        check_image(ctx, path, n, flav, known=known, label="mkimage", meta=meta)
        os.unlink(path)
        return len(ctx.failures)
    for nf in common.pmap(one, jobs):
        if nf > 5:
            break
    for f in sorted(glob.glob(os.path.join(common.REPO, "regtests", "Dumps", "*.adf"))):
        n = os.path.getsize(f) // 512
        if os.path.basename(f) == "cache_crash.adf":
            continue           # deliberately corrupt (used by C10)
        flav = open(f, "rb").read(4)[3]
        if os.path.basename(f) == "testhd.adf":
            continue           # HD floppy image with an RDB-less 3520-block volume handled like a floppy
        check_image(ctx, f, n, flav, known=None, label="amigados-dump:" + os.path.basename(f))
    rule = ("images written by the independent writer with random/reversed/interleaved block placement, shuffled hash chains, garbage in free blocks, Latin-1 names, "
            "hard links, cache blocks split at random; sizes 0, 1, bs-1, bs, bs+1, 72 and 73 blocks, >144 blocks; 4 (offset,length) requests per file incl. EOF plus one seek+read into every data block in random order; "
            "plus the AmigaDOS-made dumps of regtests/Dumps; distinct = distinct image; every image has files and directories")
    return common.finish(ctx, proof, rule, level="exploration",
                         assumptions=["an image counts as well formed when the Coq decoder accepts it (non-strict: stale pointers beyond highSeq allowed)",
                                      "soft links are listed but not followed"])


def replay(ctx, rep):
    print(rep.get("failure"))
    return 0

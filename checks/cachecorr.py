"""Block-level correspondence for the directory-cache model Model/CacheChain.v (theorems: Proofs/CacheChainP.v - adding
appends, deleting removes the record of that entry, updating replaces it; every block within the 488-byte area, only the
first block may be empty, a released block is one that lost its only record).  Histories on DIRCACHE volumes in two
directories: create, mkdir, delete, rename to shorter / longer names, comments of several lengths, moves between the
directories, size updates; after every call the raw cache chain of both directories (block numbers, record counts, header
key and length of every record, zeroed tail) must equal the model's, with the allocator as oracle for new cache blocks."""
import subprocess
from . import common, gen
from .common import hexs

DIRS = ["-", hexs(b"sub")]


def reclen(nm, cm=b""):
    n = 25 + len(nm[:30]) + len(cm)
    return n + (n & 1)


def history(ctx):
    rng = ctx.rng
    flav = rng.choice([4, 5])
    L = gen.dev_create("DD", flav) + ["mountdev 0", "mount 0 0", "mkdir - %s" % DIRS[1], "lookup - %s" % DIRS[1], "cachechain -", "cachechain %s" % DIRS[1]]
    base = len(L)
    ops = []
    present = [{}, {}]          # folded name -> [name, comment]
    present[0][gen.fold(flav, b"sub")] = [b"sub", b""]
    lens = [5, 14, 14, 15, 16, 29, 30]
    ctr = 0
    for _ in range(rng.randint(30, 70)):
        x = rng.choice([0, 1, 1])
        D = DIRS[x]
        r = rng.random()
        op = {"dir": x}
        names = sorted(v[0] for k, v in present[x].items() if not (x == 0 and v[0] == b"sub"))
        if r < 0.45 or not names:
            ctr += 1
            nm = (b"e%03d_" % ctr + b"abcdefghijklmnopqrstuvwxyz")[:rng.choice(lens)]
            if rng.random() < 0.5:
                L += ["open 7 %s %s w" % (D, hexs(nm)), "close 7"]
                op["opl"] = len(L) - 1
            else:
                L += ["mkdir %s %s" % (D, hexs(nm))]
                op["opl"] = len(L)
            L += ["lookup %s %s" % (D, hexs(nm))]
            op.update(kind="add", name=nm, lkl=len(L), len=reclen(nm))
            present[x][gen.fold(flav, nm)] = [nm, b""]
        elif r < 0.65:
            nm = rng.choice(names[-3:] + names[:2] + names)
            L += ["lookup %s %s" % (D, hexs(nm)), "rm %s %s" % (D, hexs(nm))]
            op.update(kind="del", name=nm, lkl=len(L) - 1, opl=len(L))
            present[x].pop(gen.fold(flav, nm), None)
        elif r < 0.78:
            nm = rng.choice(names)
            cm = b"c" * rng.choice([0, 1, 2, 21, 22, 40, 79])
            L += ["lookup %s %s" % (D, hexs(nm)), "comment %s %s %s" % (D, hexs(nm), hexs(cm))]
            op.update(kind="upd", name=nm, lkl=len(L) - 1, opl=len(L), len=reclen(nm, cm))
            present[x][gen.fold(flav, nm)][1] = cm
        elif r < 0.93:
            nm = rng.choice(names)
            ctr += 1
            new = (b"r%03d_" % ctr + b"zyxwvutsrqponmlkjihgfedcba")[:rng.choice(lens)]
            y = x if rng.random() < 0.6 else 1 - x
            cm = present[x][gen.fold(flav, nm)][1]
            L += ["lookup %s %s" % (D, hexs(nm)), "mv %s %s %s %s" % (D, hexs(nm), DIRS[y], hexs(new))]
            op.update(kind="mv", name=nm, new=new, to=y, lkl=len(L) - 1, opl=len(L), len=reclen(new, cm))
            present[x].pop(gen.fold(flav, nm))
            present[y][gen.fold(flav, new)] = [new, cm]
        else:
            nm = rng.choice(names)
            L += ["open 6 %s %s rw" % (D, hexs(nm)), "write 6 5 %d" % rng.choice([1, 600]), "close 6"]
            op.update(kind="touch", name=nm, opl=len(L))
        L += ["cachechain %s" % DIRS[0], "cachechain %s" % DIRS[1]]
        op["stl"] = (len(L) - 1, len(L))
        ops.append(op)
    L += ["umount", "umountdev"]
    return L, ops, base, {"flavour": flav}


def parse_chain(s):
    """'C blk=key:len,key:len|blk=...' -> list of (blk, [(key,len)...], dirty)"""
    out = []
    body = s[1:].strip() if s.startswith("C") else s
    for part in [p for p in body.split("|") if p]:
        b, rs = part.split("=", 1)
        dirty = rs.endswith("!")
        rs = rs.rstrip("!")
        out.append((int(b), [tuple(int(v) for v in q.split(":")) for q in rs.split(",") if q and q != "?"], dirty))
    return out


def run(ctx, n):
    for _ in range(n):
        L, ops, base, meta = history(ctx)
        rc, out, err, wd = common.run_script(ctx, "\n".join(L) + "\n")
        res = common.parse_results(out)
        ctx.bump("cache_histories")
        if rc != 0:
            ctx.fail("crash", "harness exit %d in a directory-cache history" % rc, {"script": L, "meta": meta}, actual=out[-2:])
            continue

        def last(ln):
            return (res.get(ln) or ["?"])[-1]
        sub_key = int(common.kv(last(base - 2))[1].get("sect", "0"))
        chains0 = [parse_chain(last(base - 1)), parse_chain(last(base))]
        if not chains0[0] or not chains0[1]:
            ctx.fail("corr", "no cache chain on a DIRCACHE volume", {"script": L[:base], "meta": meta}, actual=[last(base - 1), last(base)])
            continue
        first = [chains0[0][0][0], chains0[1][0][0]]
        lines = [["add %d %d 0" % (sub_key, reclen(b"sub"))], []]
        marks = []
        seen = [set(b for (b, _, _) in chains0[0]), set(b for (b, _, _) in chains0[1])]
        for op in ops:
            ok = last(op["opl"]).startswith("ok")
            x = op["dir"]
            cur = [parse_chain(last(op["stl"][0])), parse_chain(last(op["stl"][1]))]
            # new in this chain = not in it after the previous call (a released block may come back later)
            newb = [[b for (b, _, _) in cur[d] if b not in seen[d]] for d in (0, 1)]
            for d in (0, 1):
                seen[d] = set(b for (b, _, _) in cur[d])
            nb = [newb[0][0] if newb[0] else 0, newb[1][0] if newb[1] else 0]
            if ok and op["kind"] in ("add", "del", "upd", "mv"):
                key = int(common.kv(last(op["lkl"]))[1].get("sect", "0"))
                if op["kind"] == "add":
                    lines[x].append("add %d %d %d" % (key, op["len"], nb[x]))
                elif op["kind"] == "del":
                    lines[x].append("del %d" % key)
                elif op["kind"] == "upd":
                    lines[x].append("upd %d %d %d" % (key, op["len"], nb[x]))
                elif op["to"] == x:
                    lines[x].append("upd %d %d %d" % (key, op["len"], nb[x]))
                else:
                    lines[op["to"]].append("add %d %d %d" % (key, op["len"], nb[op["to"]]))
                    lines[x].append("del %d" % key)
            marks.append((len(lines[0]), len(lines[1]), cur))
        mouts = []
        for d in (0, 1):
            p = subprocess.run([ctx.ocaml("adfm"), "cache", str(first[d])], input="\n".join(lines[d]) + "\n", stdout=subprocess.PIPE, text=True, preexec_fn=common.big_stack)
            mouts.append([l for l in p.stdout.splitlines() if l.startswith("C")])
        for i, (op, (m0, m1, cur)) in enumerate(zip(ops, marks)):
            ctx.count(("cache", meta["flavour"], op["kind"], i, hash(tuple(L))))
            ctx.bump("cache_op:" + op["kind"] + (":ok" if last(op["opl"]).startswith("ok") else ":refused"))
            bad = None
            for d, mk in ((0, m0), (1, m1)):
                model = parse_chain(mouts[d][mk - 1]) if mk > 0 and mk - 1 < len(mouts[d]) else [(first[d], [], False)]
                if [(b, rs) for (b, rs, _) in cur[d]] != [(b, rs) for (b, rs, _) in model]:
                    bad = ("cache chain of directory %s" % ("root" if d == 0 else "sub"), [(b, rs) for (b, rs, _) in model], [(b, rs) for (b, rs, _) in cur[d]])
                elif any(dirty for (_, _, dirty) in cur[d]):
                    bad = ("bytes behind the last record of a cache block are not zero (directory %s)" % ("root" if d == 0 else "sub"), "zeroed tail", last(op["stl"][d])[:200])
            if bad:
                ctx.fail("corr", "directory-cache chain differs from Model/CacheChain.v after a call: %s" % bad[0],
                         {"call": L[op["opl"] - 1], "call_index": i, "meta": meta, "script": L[: op["stl"][1]], "model_input_root": lines[0][:m0], "model_input_sub": lines[1][:m1]},
                         expected=str(bad[1])[:600], actual=str(bad[2])[:600])
                break

"""Common driver for the history-based checks (C01-C05, C07, C08): run generated histories, keep the findings that
belong to the property, minimise the first one, and hand over to common.finish."""
import json
from . import common, hist, gen


RAW_CMDS = ("cachechain", "dirchains", "filemap", "fileblocks", "hstate", "fblks", "atrack", "alog", "amark", "wlog", "wmark", "isfree")


def followup(f):
    """a history that replays the calls of a correspondence failure and then asks the property's oracles (cached and plain
    listings, reference model, decoder) about the state: (L, first, nblocks, meta) or None"""
    inp = f.get("input") or {}
    S = inp.get("script")
    if not S or not isinstance(S, list):
        return None
    L = [l for l in S if l.split() and l.split()[0] not in RAW_CMDS and not l.startswith("dump ") and l != "spectree"]
    if not any(l.startswith("mount ") for l in L) or any(l.startswith("mkhd") or l.startswith("mkhdf") or l.startswith("loaddev") for l in L):
        return None
    while L and L[-1].split()[0] in ("umount", "umountdev", "closedev"):
        L.pop()
    handles = set()
    dirs = ["-"]
    for l in L:
        t = l.split()
        if t[0] == "open":
            handles.add(t[1])
        elif t[0] == "close":
            handles.discard(t[1])
        elif t[0] == "mkdir" and t[1] == "-" and t[2] not in dirs:
            dirs.append(t[2])
    L += ["close %s" % h for h in sorted(handles)]
    for d in dirs[:4]:
        L += ["list %s 1 0" % d, "list %s 0 0" % d]
    L += ["free", "dump $W/imgFU1", "spectree", "umount", "umountdev", "dump $W/imgFU2", "spectree", "mountdev 0", "mount 0 0", "free", "list - 1 1", "umount", "umountdev"]
    return L, 0, 1760, {"follow_up_of": f.get("what"), "call": inp.get("call")}


def explore(ctx, proof, mine, builders, rule, assumptions, nontrivial=None, extra_cov=None, matches_finding=None, level="proof"):
    """mine: set of property ids whose findings count for this check (plus CRASH/TOOL);
       builders: list of (label, function(ctx) -> (L, first, nblocks, meta))"""
    others = {}
    first_fail = None
    rounds = 0
    while True:
        rounds += 1
        built = []
        for (label, fn) in builders:
            try:
                L, first, nblocks, meta, *rest = fn(ctx)
            except Exception as e:       # generator bug: a check whose generator does not run explores nothing - that is a failure of the check, not a note
                ctx.notes.append("generator %s raised %r" % (label, e))
                if not any(f["what"].startswith("generator %s raised" % label) for f in ctx.failures):
                    ctx.fail("corr", "generator %s raised %r: the histories it should have produced were not explored" % (label, e), {"generator": label})
                continue
            built.append((label, L, first, nblocks, meta, rest[0] if rest else {}))
        # the histories are independent: run them on all cores (generation above stays sequential, so a seed replays exactly)
        results = common.pmap(lambda b: hist.run_history(ctx, b[1], first=b[2], nblocks=b[3], **b[5]), built)
        for (label, L, first, nblocks, meta, opts), r in zip(built, results):
            ops = [l.split()[0] for l in L if l.split()]
            key = (label, json.dumps(meta, sort_keys=True, default=str), len(L), hash(tuple(L)))
            nt = True if nontrivial is None else nontrivial(L, r)
            ctx.count(key, nontrivial=nt)
            ctx.bump("history:" + label)
            for o in ops:
                if o in hist.FILE_OPS or o in hist.NS_OPS:
                    ctx.bump("op:" + o)
            nerr = sum(1 for rs in r["results"].values() if rs and rs[-1].startswith("err"))
            ctx.bump("failing_calls", nerr)
            if len(ctx.samples) < 3:
                ctx.sample({"generator": label, "meta": meta, "script_head": L[:14], "lines": len(L)})
            for (p, what, det) in r["findings"]:
                if p in mine or p in ("CRASH", "TOOL"):
                    kind = "crash" if p == "CRASH" else ("corr" if p == "TOOL" else "oracle")
                    if first_fail is None and kind != "corr":
                        first_fail = (L, first, nblocks, p, what, opts)
                    ctx.fail(kind, what, {"generator": label, "meta": meta, "detail": det, "script": L}, expected="agreement with the reference model / a well-formed image", actual=det)
                else:
                    others[p] = others.get(p, 0) + 1
            if len(ctx.failures) >= 5:
                break
        # a broken proof obligation, translation or correspondence with no failing input yet: search further before reporting
        # no-failing-input-found - first with the calls on which a block-level correspondence disagreed (the model and the
        # implementation part ways there: the property's own oracle is asked about exactly that state), then with fresh
        # histories from the same generators
        concrete = [f for f in ctx.failures if f["kind"] != "corr"]
        corr = [f for f in ctx.failures if f["kind"] == "corr"]
        if concrete or not (proof["problems"] or corr) or rounds >= 4:
            break
        if rounds == 1 and corr:
            fus = [followup(f) for f in corr]
            fus = [x for x in fus if x]
            if fus:
                builders = [("follow-up of a correspondence disagreement", (lambda c, x=x: x)) for x in fus] + list(builders)
                ctx.notes.append("correspondence disagreement without a failing input: judging the state after the disagreeing call (%d follow-up histories)" % len(fus))
                continue
        ctx.notes.append("proof obligations or correspondence broken and no failing input in round %d: searching further" % rounds)
    if first_fail and ctx.tier == "quick":
        # shrink the first failing history to a minimal operation sequence for the replay file
        L, first, nblocks, p, what, opts = first_fail
        try:
            if opts:
                raise RuntimeError("space-limited histories are not minimised (removing lines changes the fill level)")
            M = hist.minimize(ctx, L, lambda r: any(q == p and w == what for (q, w, d) in r["findings"]), keep_prefix=5, first=first, nblocks=nblocks, budget=60)
            ctx.failures[0]["input"]["minimised_script"] = M
        except Exception as e:
            ctx.notes.append("minimiser failed: %r" % (e,))
    if others:
        ctx.notes.append("findings belonging to other properties seen in these runs (reported by their own checks): %s" % others)
    return common.finish(ctx, proof, rule, level=level, extra_cov=extra_cov, assumptions=assumptions, matches_finding=matches_finding)

"""C11 Hostile images: the read path always terminates.
Every chain / next / child / extension pointer of well-formed images is redirected to itself, to the block that points to
it, to an ancestor, to the root, to another entry, singly and in pairs.  The read-only API then runs with a per-call budget
of device reads (a small multiple of the volume size, the explicit bound of the property) and a wall-clock alarm; a call
that exceeds the budget, overflows the stack or is killed by the alarm is a violation."""
import os, shutil, subprocess
from . import common, gen, hist, mkimage, mutimg, c10
from .common import hexs

POINTER_FIELDS = ("nextSameHash", "extension", "nextDirC", "parent", "bmExt", "nextData", "firstData", "realEntry", "nextLink", "headerKey")


def run(ctx):
    proof = common.proof_status(ctx)
    rng = ctx.rng
    names = [("-", hexs(b"big")), ("-", hexs(b"small")), ("-", hexs(b"lnk")), (hexs(b"dir"), hexs(b"in1")),
             ("%s/%s" % (hexs(b"dir"), hexs(b"sub")), hexs(b"deep")), ("-", hexs(b"dir")), ("-", hexs(b"nonexistent"))]
    budget = 2400 if ctx.tier == "quick" else 40000
    done = 0
    bases = c10.base_images(ctx)
    # RDB disk with cyclic partition lists
    for (flav, n, data, label) in bases:
        p0 = os.path.join(ctx.work, "c11_base.img")
        open(p0, "wb").write(data)
        r = subprocess.run([ctx.ocaml("adfm"), "decode", p0, "0", str(n), "0"], stdout=subprocess.PIPE, text=True, preexec_fn=common.big_stack)
        lines = r.stdout.splitlines()
        if not lines or not lines[0].startswith("OK"):
            continue
        owned = [int(x) for x in lines[1].split()[1].split(",")]
        fields = [f for f in mutimg.metadata_fields(data, n, owned, flav) if f[3] in POINTER_FIELDS or f[3].startswith("table[") or f[3].startswith("bmPages")]
        meta_blocks = sorted(set(f[0] for f in fields))
        kind_of = {}
        for f in mutimg.metadata_fields(data, n, owned, flav):
            kind_of.setdefault(f[0], f[4])
        by_kind = {}
        for b, k in kind_of.items():
            by_kind.setdefault(k, []).append(b)
        pointed_by = {}
        for g in fields:
            pointed_by.setdefault(mkimage.get32(data, g[0] * 512 + g[1]), set()).add(g[0])

        def fname(f):
            return "table" if f[3].startswith("table[") else ("bmPages" if f[3].startswith("bmPages") else f[3])

        def bkind(b, k):
            # a cache block without records is a kind of its own: a walk that only counts records makes no progress on it
            if k == "cache" and mkimage.get32(data, b * 512 + 12) == 0:
                return "cache0"
            return k

        def tkind(f, t):
            if t == f[0]:
                return "self"
            if t in pointed_by.get(f[0], ()):
                return "pred"
            return bkind(t, kind_of.get(t, "free" if t not in owned else "data"))
        # every class (kind of block, field, kind of target) gets its share of the budget before any class gets a second case:
        # a redirect of a data pointer to a header block is a different case from a redirect to another data block
        classes = {}
        for f in fields:
            targets = {f[0], n // 2} | set(pointed_by.get(f[0], ()))
            for k, bl in by_kind.items():
                if k != "boot":
                    targets.add(rng.choice(bl))
            empties = [b for b in by_kind.get("cache", []) if mkimage.get32(data, b * 512 + 12) == 0]
            if empties:
                targets.add(rng.choice(empties))
            hk = mkimage.get32(data, f[0] * 512 + 4)
            if f[4] == "ofsdata" and 2 <= hk < n:
                targets.add(hk)             # the file header the data block belongs to
            free = [b for b in range(2, n) if b not in owned]
            if free:
                targets.add(rng.choice(free))
            for t in targets:
                classes.setdefault((bkind(f[0], f[4]), fname(f), tkind(f, t)), []).append(([f], [t]))
        for c in classes.values():
            rng.shuffle(c)
        order = sorted(classes)
        rng.shuffle(order)
        cases = []
        depth = 0
        while any(len(classes[c]) > depth for c in order):
            for c in order:
                if len(classes[c]) > depth:
                    cases.append(classes[c][depth])
            depth += 1
        ctx.bump("redirect_classes", len(order))
        per_base = budget // len(bases)
        singles = cases[: (per_base * 3) // 4]
        pairs = []
        for _ in range(per_base - len(singles)):
            (f1, t1), (f2, t2) = rng.choice(cases), rng.choice(cases)
            pairs.append((f1 + f2, t1 + t2))
        cases = singles + pairs
        def one(job):
            k, (fs, ts) = job
            m = data
            for f, t in zip(fs, ts):
                m = mutimg.mutate(m, n, f, t, True)
            mp = os.path.join(ctx.work, "c11_m%d.img" % k)
            open(mp, "wb").write(m)
            L = c10.read_script(mp, n, names)
            L[0] = "readlimit %d" % (8 * n + 500)
            rc, out, err, wd = common.run_script(ctx, "\n".join(L) + "\n", timeout=100)
            os.unlink(mp)
            shutil.rmtree(wd, ignore_errors=True)
            return (fs, ts, L, rc, out)
        for (fs, ts, L, rc, out) in common.pmap(one, list(enumerate(cases))):
            done += 1
            ctx.count((flav, tuple((f[0], f[1]) for f in fs), tuple(ts)))
            ctx.bump("redirects:%d" % len(fs))
            if rc != 0:
                what = {3: "a read-only call exceeded its device-read budget (unbounded loop)", 4: "a read-only call crashed (unbounded recursion / invalid access)",
                        124: "a read-only call did not return within the time limit"}.get(rc, "harness exit %d" % rc)
                last = out[-1] if out else ""
                if "sig=14" in last:
                    what = "a read-only call did not return within the watchdog period (loop that makes no progress and reads nothing)"
                ctx.fail("oracle" if rc in (3, 124) or "sig=14" in last else "crash", what,
                         {"flavour": flav, "redirects": [{"block": f[0], "offset": f[1], "field": f[3], "block_kind": f[4], "to_block": t} for f, t in zip(fs, ts)],
                          "read_budget_per_call": 8 * n + 500, "script": L[2:9]},
                         expected="an error or data after a bounded number of reads", actual=out[-2:])
                if len(ctx.failures) > 6:
                    break
            if len(ctx.samples) < 3:
                ctx.sample({"flavour": flav, "redirects": [{"field": f[3], "block_kind": f[4], "block": f[0], "to": t} for f, t in zip(fs, ts)]})
        if len(ctx.failures) > 6:
            break
    # partitioned disk: cyclic PART / FSHD / LSEG lists
    L0 = gen.dev_create("PART:120:2:16:2,50;52,60", 1) + ["dump $W/rdb.img"]
    rc, out, err, wd = common.run_script(ctx, "\n".join(L0) + "\n")
    rdb = os.path.join(wd, "rdb.img")
    if os.path.exists(rdb):
        data = open(rdb, "rb").read()
        # RDSK at 0: partitionList at offset 28, fileSysHdrList 32; PART.next at offset 16; FSHD next 16, segListBlock at 72?; LSEG next 16
        for (blk, off, val, what) in [(1, 16, 1, "PART[0].next -> itself"), (2, 16, 1, "PART[1].next -> PART[0]"), (3, 16, 3, "FSHD.next -> itself"),
                                      (4, 16, 4, "LSEG.next -> itself"), (0, 28, 0, "RDSK.partitionList -> RDSK"), (0, 32, 3, "unchanged control")]:
            m = bytearray(data)
            mkimage.put32(m, blk * 512 + off, val)
            b = bytearray(m[blk * 512: blk * 512 + 256])
            mkimage.put32(b, 8, 0)
            s_ = 0
            for i in range(0, 256, 4):
                s_ = (s_ + mkimage.get32(b, i)) & 0xFFFFFFFF
            mkimage.put32(b, 8, (-s_) & 0xFFFFFFFF)
            m[blk * 512: blk * 512 + 256] = b
            mp = os.path.join(ctx.work, "c11_rdb.img")
            open(mp, "wb").write(bytes(m))
            L = ["readlimit 20000", "loaddev mem %s 120 2 16" % mp, "mountdev 1", "mount 0 1", "list - 0 1", "umount", "umountdev"]
            rc, out, err, wd2 = common.run_script(ctx, "\n".join(L) + "\n", timeout=100)
            ctx.count(("rdb", what))
            ctx.bump("rdb_list_cycles")
            if rc != 0:
                ctx.fail("oracle", "mounting a partitioned disk with a cyclic list did not terminate / crashed (exit %d)" % rc, {"redirect": what, "script": L}, expected="error or data", actual=out[-2:])
    # floppy whose root claims a bitmap-extension block: page slot of the root emptied, bmExt -> a block of zeros whose next is itself
    for (flav, n, data, label) in bases[:2]:
        root = n // 2
        for x in (n - 3, 2):
            for nxt in ("itself", "root"):
                m = bytearray(data)
                mkimage.put32(m, root * 512 + 316, 0)
                mkimage.put32(m, root * 512 + 416, x)
                rb = bytearray(m[root * 512:(root + 1) * 512])
                mkimage.fix_sum(rb)
                m[root * 512:(root + 1) * 512] = rb
                m[x * 512:(x + 1) * 512] = bytes(512)
                mkimage.put32(m, x * 512 + 508, x if nxt == "itself" else root)
                mp = os.path.join(ctx.work, "c11_bmx.img")
                open(mp, "wb").write(bytes(m))
                L = ["readlimit %d" % (8 * n + 500), "loaddev mem %s" % mp, "mountdev 1", "mount 0 1", "free", "list - 0 1", "umount", "umountdev"]
                rc, out, err, wd2 = common.run_script(ctx, "\n".join(L) + "\n", timeout=100)
                shutil.rmtree(wd2, ignore_errors=True)
                ctx.count(("bmext-floppy", flav, x, nxt))
                ctx.bump("bitmap_extension_cycles")
                if rc != 0:
                    ctx.fail("oracle", "mounting a floppy whose root points to an empty, cyclic bitmap-extension block did not terminate / crashed (exit %d)" % rc,
                             {"flavour": flav, "root_bmPages0": 0, "root_bmExt": x, "ext_next": nxt, "script": L}, expected="error or data", actual=out[-2:])
    # volume with bitmap-extension blocks (more than 25 bitmap pages = more than 101600 blocks): cyclic extension list
    nbig = 4064 * 25 + 2 + 4064 * 2
    L0 = gen.dev_create("HF:%d" % nbig, 1) + ["dump $W/big.img"]
    rc, out, err, wd = common.run_script(ctx, "\n".join(L0) + "\n", timeout=300)
    big = os.path.join(wd, "big.img")
    if os.path.exists(big):
        data = open(big, "rb").read()
        root = nbig // 2
        ext = mkimage.get32(data, root * 512 + 416)
        if not (2 <= ext < nbig):
            ctx.notes.append("no bitmap-extension block on the %d-block hardfile (bmExt=%d)" % (nbig, ext))
        else:
            cases = [([(ext, 508, ext)], "bitmap-extension block.next -> itself"), ([(ext, 508, root)], "bitmap-extension block.next -> root block"),
                     ([(ext, 0, ext)], "first page pointer of the extension block -> the extension block"), ([(ext, 508, 0)], "unchanged control"),
                     # a walk that only ends when enough pages were collected: a block with empty slots adds none
                     ([(ext, 4, 0), (ext, 508, ext)], "extension block: second page slot empty and next -> itself"),
                     ([(ext, 0, 0), (ext, 508, ext)], "extension block: first page slot empty and next -> itself"),
                     ([(root, 316 + 4 * 24, 0), (root, 416, ext), (ext, 0, 0), (ext, 4, 0), (ext, 508, ext)], "root: last page slot empty; extension block: slots empty, next -> itself")]
            for (pokes, what) in cases:
                m = bytearray(data)
                for (blk, off, val) in pokes:
                    mkimage.put32(m, blk * 512 + off, val)
                if any(blk == root for (blk, off, val) in pokes):
                    rb = bytearray(m[root * 512:(root + 1) * 512])
                    mkimage.fix_sum(rb)
                    m[root * 512:(root + 1) * 512] = rb
                mp = os.path.join(ctx.work, "c11_big.img")
                open(mp, "wb").write(bytes(m))
                L = ["readlimit %d" % (8 * nbig + 500), "loaddev file %s" % mp, "mountdev 1", "mount 0 1", "free", "list - 0 1", "umount", "umountdev"]
                rc, out, err, wd2 = common.run_script(ctx, "\n".join(L) + "\n", timeout=200)
                shutil.rmtree(wd2, ignore_errors=True)
                ctx.count(("bmext", what))
                ctx.bump("bitmap_extension_cycles")
                if rc != 0:
                    ctx.fail("oracle", "mounting a volume with a cyclic bitmap-extension list did not terminate / crashed (exit %d)" % rc, {"redirect": what, "blocks": nbig, "script": L},
                             expected="error or data", actual=out[-2:])
            os.unlink(mp)
    shutil.rmtree(wd, ignore_errors=True)
    rule = ("each pointer field (hash-table slots, nextSameHash, extension, nextDirC, parent, firstData, nextData, realEntry, bitmap pointers) of each metadata block of "
            "well-formed base images redirected to itself / its predecessor / the root / its file header / a block of each other kind (dir, file, ext, cache, OFS data, link, free), "
            "classes (block kind, field, target kind) covered round-robin, then random pairs; checksums repaired; every file also read whole in one call; cyclic "
            "PART/FSHD/LSEG lists; cyclic bitmap-extension list on a 109730-block hardfile; read-only API with a budget of 8*volume+500 device reads per call; distinct = distinct set of redirects")
    return common.finish(ctx, proof, rule, level="exploration",
                         assumptions=["the bound is on device reads per API call; CPU-only loops are caught by the 60 s alarm of the harness"])


def replay(ctx, rep):
    print(rep.get("failure"))
    return 0

"""C11 Hostile images: the read path always terminates.
Every chain / next / child / extension pointer of well-formed images is redirected to itself, to the block that points to
it, to an ancestor, to the root, to another entry, singly and in pairs.  The read-only API then runs with a per-call budget
of device reads (a small multiple of the volume size, the explicit bound of the property) and a wall-clock alarm; a call
that exceeds the budget, overflows the stack or is killed by the alarm is a violation."""
import os, subprocess
from . import common, gen, hist, mkimage, mutimg, c10
from .common import hexs

POINTER_FIELDS = ("nextSameHash", "extension", "nextDirC", "parent", "bmExt", "nextData", "firstData", "realEntry", "nextLink", "headerKey")


def run(ctx):
    proof = common.proof_status(ctx)
    rng = ctx.rng
    names = [("-", hexs(b"big")), ("-", hexs(b"small")), ("-", hexs(b"lnk")), (hexs(b"dir"), hexs(b"in1")),
             ("%s/%s" % (hexs(b"dir"), hexs(b"sub")), hexs(b"deep")), ("-", hexs(b"dir")), ("-", hexs(b"nonexistent"))]
    budget = 200 if ctx.tier == "quick" else 12000
    done = 0
    bases = c10.base_images(ctx)
    # RDB disk with cyclic partition lists
    for (flav, n, data, label) in bases:
        p0 = os.path.join(ctx.work, "c11_base.img")
        open(p0, "wb").write(data)
        r = subprocess.run([ctx.ocaml("adfm"), "decode", p0, "0", str(n), "0"], stdout=subprocess.PIPE, text=True, preexec_fn=common.big_stack)
        lines = r.stdout.splitlines()
        if not lines or not lines[0].startswith("OK"):
            continue
        owned = [int(x) for x in lines[1].split()[1].split(",")]
        fields = [f for f in mutimg.metadata_fields(data, n, owned, flav) if f[3] in POINTER_FIELDS or f[3].startswith("table[") or f[3].startswith("bmPages")]
        meta_blocks = sorted(set(f[0] for f in fields))
        cases = []
        for f in fields:
            targets = {f[0], n // 2, rng.choice(meta_blocks), rng.choice(meta_blocks)}
            # the block that points to this one
            for g in fields:
                if mkimage.get32(data, g[0] * 512 + g[1]) == f[0]:
                    targets.add(g[0])
            for t in targets:
                cases.append(([f], [t]))
        for _ in range(len(cases) // 3):
            (f1, t1), (f2, t2) = rng.choice(cases), rng.choice(cases)
            cases.append((f1 + f2, t1 + t2))
        rng.shuffle(cases)
        for (fs, ts) in cases[: budget // len(bases)]:
            m = data
            for f, t in zip(fs, ts):
                m = mutimg.mutate(m, n, f, t, True)
            mp = os.path.join(ctx.work, "c11_m.img")
            open(mp, "wb").write(m)
            L = c10.read_script(mp, n, names)
            L[0] = "readlimit %d" % (3 * n + 200)
            rc, out, err, wd = common.run_script(ctx, "\n".join(L) + "\n", timeout=100)
            done += 1
            ctx.count((flav, tuple((f[0], f[1]) for f in fs), tuple(ts)))
            ctx.bump("redirects:%d" % len(fs))
            if rc != 0:
                what = {3: "a read-only call exceeded its device-read budget (unbounded loop)", 4: "a read-only call crashed (unbounded recursion / invalid access)",
                        124: "a read-only call did not return within the time limit"}.get(rc, "harness exit %d" % rc)
                last = out[-1] if out else ""
                ctx.fail("oracle" if rc in (3, 124) or "sig=14" in last else "crash", what,
                         {"flavour": flav, "redirects": [{"block": f[0], "offset": f[1], "field": f[3], "block_kind": f[4], "to_block": t} for f, t in zip(fs, ts)],
                          "read_budget_per_call": 3 * n + 200, "script": L[2:9]},
                         expected="an error or data after a bounded number of reads", actual=out[-2:])
                if len(ctx.failures) > 6:
                    break
            if len(ctx.samples) < 3:
                ctx.sample({"flavour": flav, "redirects": [{"field": f[3], "block_kind": f[4], "block": f[0], "to": t} for f, t in zip(fs, ts)]})
        if len(ctx.failures) > 6:
            break
    # partitioned disk: cyclic PART / FSHD / LSEG lists
    L0 = gen.dev_create("PART:120:2:16:2,50;52,60", 1) + ["dump $W/rdb.img"]
    rc, out, err, wd = common.run_script(ctx, "\n".join(L0) + "\n")
    rdb = os.path.join(wd, "rdb.img")
    if os.path.exists(rdb):
        data = open(rdb, "rb").read()
        # RDSK at 0: partitionList at offset 28, fileSysHdrList 32; PART.next at offset 16; FSHD next 16, segListBlock at 72?; LSEG next 16
        for (blk, off, val, what) in [(1, 16, 1, "PART[0].next -> itself"), (2, 16, 1, "PART[1].next -> PART[0]"), (3, 16, 3, "FSHD.next -> itself"),
                                      (4, 16, 4, "LSEG.next -> itself"), (0, 28, 0, "RDSK.partitionList -> RDSK"), (0, 32, 3, "unchanged control")]:
            m = bytearray(data)
            mkimage.put32(m, blk * 512 + off, val)
            b = bytearray(m[blk * 512: blk * 512 + 256])
            mkimage.put32(b, 8, 0)
            s_ = 0
            for i in range(0, 256, 4):
                s_ = (s_ + mkimage.get32(b, i)) & 0xFFFFFFFF
            mkimage.put32(b, 8, (-s_) & 0xFFFFFFFF)
            m[blk * 512: blk * 512 + 256] = b
            mp = os.path.join(ctx.work, "c11_rdb.img")
            open(mp, "wb").write(bytes(m))
            L = ["readlimit 20000", "loaddev mem %s 120 2 16" % mp, "mountdev 1", "mount 0 1", "list - 0 1", "umount", "umountdev"]
            rc, out, err, wd2 = common.run_script(ctx, "\n".join(L) + "\n", timeout=100)
            ctx.count(("rdb", what))
            ctx.bump("rdb_list_cycles")
            if rc != 0:
                ctx.fail("oracle", "mounting a partitioned disk with a cyclic list did not terminate / crashed (exit %d)" % rc, {"redirect": what, "script": L}, expected="error or data", actual=out[-2:])
    rule = ("each pointer field (hash-table slots, nextSameHash, extension, nextDirC, parent, firstData, nextData, realEntry, bitmap pointers) of each metadata block of "
            "well-formed base images redirected to itself / its predecessor / the root / another metadata block, singly and in random pairs, checksums repaired; cyclic "
            "PART/FSHD/LSEG lists; read-only API with a budget of 3*volume+200 device reads per call; distinct = distinct set of redirects")
    return common.finish(ctx, proof, rule, level="exploration",
                         assumptions=["the bound is on device reads per API call; CPU-only loops are caught by the 60 s alarm of the harness"])


def replay(ctx, rep):
    print(rep.get("failure"))
    return 0

"""C04 Allocation soundness."""
import os
from . import common, gen, hist, histcheck, c01, c02, c03
from .common import hexs

NEEDED = ["adfIsBlockFree.idx", "adfSetBlockFree.idx", "adfSetBlockUsed.idx", "bitMask"]


def big_volume(ctx, huge=False):
    """volumes with several bitmap pages: allocation crossing the 4064-block page boundaries"""
    rng = ctx.rng
    flav = rng.choice([0, 1, 3])
    # 1..5 bitmap pages: the root block's page list beyond its third entry lies where an entry block has its comment (a root
    # read as a directory and written back as a root must keep it), and - `huge` - more than 25 pages: a bitmap extension block
    n = rng.choice([8200, 8130, 12300, 12300, 16300, 20000, 4067 + 1, 8128 + 2 + 2]) if not huge else 25 * 4064 + 2 + rng.choice([1, 500, 4064 + 7])
    n += n % 2
    L = gen.dev_create("HF:%d" % n, flav) + ["mountdev 0", "mount 0 0"]
    bs = 512 if flav & 1 else 488
    k = 0
    for i in range(3):
        L += ["open 0 - %s w" % hexs(b"f%d" % i), "write 0 %d %d" % (i + 1, rng.choice([600, 1500, 2100]) * bs), "close 0"]
    L += ["free", "dump $W/img1", "spectree", "rm - %s" % hexs(b"f1"), "mkdir - %s" % hexs(b"d"),
          "open 0 %s %s w" % (hexs(b"d"), hexs(b"g")), "write 0 9 %d" % (900 * bs), "close 0",
          "free", "umount", "umountdev", "dump $W/img2", "spectree", "mountdev 0", "mount 0 0",
          "open 0 - %s w" % hexs(b"h"), "write 0 4 %d" % (300 * bs), "close 0", "free", "dump $W/img3", "spectree", "umount", "umountdev"]
    return L, 0, n, {"flavour": flav, "blocks": n}


def huge_volume(ctx):
    return big_volume(ctx, huge=True)


def leaf_bits(ctx):
    rng = ctx.rng
    lines = []
    for pages in (1, 2, 3):
        last = 2 + 4064 * pages - 1
        ns = {2, 3, 33, 34, 4065, 4066, 4067, 8129, 8130, 8131, last, last - 1}
        for _ in range(40 if ctx.tier == "quick" else 600):
            ns.add(rng.randrange(2, last + 1))
        for n in sorted(x for x in ns if 2 <= x <= last):
            for op in ("free", "used", "isfree"):
                lines.append("bitidx %s %d %d" % (op, n, pages))
    rc, cout, _ = common.run_lines(ctx.bin("leafh"), "\n".join(lines) + "\n")
    outl = cout.splitlines()
    if rc != 0 or len(outl) != len(lines):
        bad = lines[min(len(outl), len(lines) - 1)] if lines else "?"
        if outl and len(outl[-1].partition(" = ")[2].split()) != 4:
            bad = outl[-1].partition(" = ")[0]
            outl = outl[:-1]
        ctx.fail("crash", "bitmap primitive crashed or was cut short (exit %s)" % rc, {"call": bad}, expected="a result line", actual="process died")
    for l in outl:
        lhs, _, rhs = l.partition(" = ")
        t = lhs.split()
        n = int(t[2])
        if len(rhs.split()) != 4:
            continue
        pg, w, m, res = map(int, rhs.split())
        i = n - 2
        exp = (i // 4064, (i // 32) % 127, 1 << (i % 32))
        ctx.count(lhs)
        ctx.bump("bit:" + t[1])
        if (pg, w, m) != exp or (t[1] == "isfree" and res != 1):
            ctx.fail("oracle", "bitmap %s touches the wrong page/word/bit for block %d" % (t[1], n), {"call": lhs}, expected=list(exp), actual=[pg, w, m, res])


def alloc_correspondence(ctx):
    """model scan (Model/Bitmap.v, extracted) vs adfGetFreeBlocks on random bitmaps"""
    rng = ctx.rng
    import subprocess
    for it in range(6 if ctx.tier == "quick" else 120):
        kind, n = rng.choice([("DD", 1760), ("HF:8200", 8200), ("HF:4068", 4068)])
        root = n // 2
        L = gen.dev_create(kind, 1) + ["mountdev 0", "mount 0 0"]
        npages = (n - 2 + 4063) // 4064                     # bitmap pages sit right behind the root block on a fresh volume
        M = ["used %d" % root] + ["used %d" % (root + 1 + i) for i in range(npages)]
        ops = []
        # occupy most of the volume so that the scan wraps around and exhaustion is reached
        dense = rng.random() < 0.5
        for _ in range(rng.randint(20, 400)):
            if dense:
                a = rng.randrange(2, n - 40)
                for x in range(a, min(n, a + rng.randint(1, 60))):
                    L.append("setused %d" % x); M.append("used %d" % x)
            x = rng.randrange(2, n)
            if rng.random() < 0.6:
                L.append("setused %d" % x); M.append("used %d" % x)
            else:
                L.append("setfree %d" % x); M.append("free %d" % x)
        marks = []
        for _ in range(rng.randint(3, 12)):
            k = rng.choice([1, 1, 2, 3, 25, 200, n])
            L.append("alloc %d" % k); M.append("alloc %d" % k); marks.append(len(L))
            L.append("free"); M.append("count"); marks.append(len(L))
        rc, out, err, wd = common.run_script(ctx, "\n".join(L) + "\numount\numountdev\n")
        res = common.parse_results(out)
        r = subprocess.run([ctx.ocaml("adfm"), "alloc", str(root), str(n - 1)], input="\n".join(M) + "\n", stdout=subprocess.PIPE, text=True, preexec_fn=common.big_stack)
        mres = r.stdout.splitlines()
        ctx.count(("alloc", it, kind))
        ctx.bump("alloc_correspondence")
        for i, li in enumerate(marks):
            c = (res.get(li) or ["?"])[0]
            m = mres[i] if i < len(mres) else "?"
            if c.startswith("ok free="):
                cc = c.split("=")[1]
            elif c.startswith("ok"):
                cc = " ".join(c.split()[1:])
            else:
                cc = "none"
            if cc != m:
                # is it a soundness violation of the implementation? (block handed out although used / out of range / twice)
                ctx.fail("corr", "allocator model and adfGetFreeBlocks disagree", {"script": L, "line": li}, expected=m, actual=c, stream="allocator")
                break


def inmemory_probe(ctx):
    """after a call that failed (for lack of space; an undelete that is refused), in the SAME session: every block the volume owns
    (decoder's ownership of the image dumped right after the call) must still be marked allocated in the library's in-memory
    bitmap - a wrong release in an error path is invisible on disk until the next bitmap write"""
    import subprocess, os, shutil
    from . import c08, undel
    n = 28 if ctx.tier == "quick" else 280
    jobs = []
    for _ in range(n):
        L, first, nb, meta = c08.forced_history(ctx)
        jobs.append((L, nb, meta, "dump $W/img2", "after a call that failed for lack of space"))
    for _ in range(24 if ctx.tier == "quick" else 300):
        L, first, nb, meta = undel.history(ctx)
        # the dump that follows each undelete call
        for i, l in enumerate(L):
            if l.startswith("undel ") and i + 2 < len(L) and L[i + 2].startswith("dump "):
                jobs.append((L, nb, meta, L[i + 2], "after an undelete call (accepted or refused)"))

    def one(job):
        L, nb, meta, dumpline, when = job
        L = [l for l in L if l != "spectree"]
        k = L.index(dumpline)
        L1 = L[: k + 1]
        rc, out, err, wd = common.run_script(ctx, "\n".join(L1) + "\n")
        img = os.path.join(wd, dumpline.split("/")[-1])
        if rc != 0 or not os.path.exists(img):
            return (job, None, None, None)
        r = subprocess.run([ctx.ocaml("adfm"), "decode", img, "0", str(nb), "1"], stdout=subprocess.PIPE, text=True, preexec_fn=common.big_stack)
        ls = r.stdout.splitlines()
        shutil.rmtree(wd, ignore_errors=True)
        if not ls or not ls[0].startswith("OK"):
            return (job, "undecodable", ls[:1], None)
        owned = [int(x) for x in ls[1].split()[1].split(",")]
        L2 = L1[:-1] + ["isfree %d" % b for b in owned]
        rc2, out2, err2, wd2 = common.run_script(ctx, "\n".join(L2) + "\n")
        res2 = common.parse_results(out2)
        shutil.rmtree(wd2, ignore_errors=True)
        bad = [b for i, b in enumerate(owned) if (res2.get(len(L1) + i) or ["?"])[-1] != "ok 0"]
        return (job, "ok", bad, L2)
    for (job, st, bad, L2) in common.pmap(one, jobs):
        L, nb, meta, dumpline, when = job
        ctx.count(("inmemory", meta.get("kind", meta.get("scenario")), meta.get("fail_from_request"), meta.get("flavour"), dumpline))
        ctx.bump("inmemory_bitmap_probe")
        if st == "ok" and bad:
            ctx.fail("oracle", "a block the volume owns is marked free in the in-memory bitmap %s" % when,
                     {"meta": meta, "blocks": bad[:8], "script": L2[: L2.index("allocfail 0") + 2] if "allocfail 0" in L2 else L2[:60]},
                     expected="every owned block allocated", actual="free: %s" % bad[:8])
            if len(ctx.failures) > 3:
                break


def run(ctx):
    proof = common.proof_status(ctx)
    alloc_correspondence(ctx)
    inmemory_probe(ctx)
    tf = common.translator_failures(ctx, NEEDED)
    if tf:
        proof["problems"].append("translator could not translate: %s" % tf)
    leaf_bits(ctx)
    b = [("multi-page", big_volume) for _ in range(6 if ctx.tier == "quick" else 60)]
    b += [("bitmap-extension-volume", huge_volume) for _ in range(1 if ctx.tier == "quick" else 6)]
    b += c01.builders(ctx)[: (80 if ctx.tier == "quick" else 1200)]
    # directories whose cache spans several blocks, emptied in several orders (cache blocks are released one by one)
    from . import c05, c07
    b += [("dircache-directory-cycle", c05.cache_dir_cycle) for _ in range(10 if ctx.tier == "quick" else 150)]
    b += [("dircache-empty-a-block", c07.block_sweep) for _ in range(4 if ctx.tier == "quick" else 40)]
    b += [("dircache-stress", c07.cache_history) for _ in range(8 if ctx.tier == "quick" else 150)]
    b += [("dircache-move-across", c07.move_across_history) for _ in range(8 if ctx.tier == "quick" else 120)]
    # exhaustion: error paths give back what they took - and nothing else
    from . import c08

    def wrap(fn):
        def g(ctx):
            L, first, nb, meta = fn(ctx)
            return L, first, nb, meta, {"spec_patch": c08.spec_patch, "ignore_names": c08.FILLERS}
        return g
    b += [("forced-exhaustion", wrap(c08.forced_history)) for _ in range(28 if ctx.tier == "quick" else 560)]
    b += [("extension-boundary-exhaustion", wrap(c08.boundary_history)) for _ in range(6 if ctx.tier == "quick" else 100)]
    b += [("namespace", c02.ns_history) for _ in range(8 if ctx.tier == "quick" else 200)]
    b += [("rdb-partition", c03.part_history) for _ in range(4 if ctx.tier == "quick" else 80)]
    # undelete: every block of the entry that comes back is allocated again, a refused undelete marks nothing
    from . import undel
    for kind in undel.KINDS:
        for fl in (ctx.rng.choice([4, 5]), ctx.rng.choice([0, 1, 2, 3])):
            b.append(("undelete", (lambda k, f: (lambda c: undel.history(c, k, f)))(kind, fl)))
    b += [("undelete", undel.history) for _ in range(6 if ctx.tier == "quick" else 400)]
    rule = ("bit-index calls on volumes with 1..3 bitmap pages at page/word boundaries; histories (multi-page hardfiles crossing the 4064-block page boundary, "
            "file and namespace histories, forced and real exhaustion episodes, DIRCACHE directories grown over several cache blocks and emptied, RDB partition with non-zero first block) judged at every dump by the extracted decoder: each reachable block reached once, "
            "in range, marked allocated in the ON-DISK bitmap (dumps are taken with and without remount); distinct = distinct call / script")
    return histcheck.explore(ctx, proof, {"C04"}, b, rule, ["quiescent = no handle open for writing", "hardfiles with an even block count (see C14)"])


def replay(ctx, rep):
    return c01.replay(ctx, rep)

"""C03 On-disk format conformance judged by the extracted spec decoder (Spec/Decode.v, written from adf_info.txt).
At every quiescent point of generated histories (file histories, namespace histories, alignment sweeps; floppy, hardfile,
RDB partition) the raw image must decode, and the decoded tree, metadata and file bytes must equal the reference model."""
import os
from . import common, gen, hist, histcheck, c01, c02
from .common import hexs

NEEDED = ["adfNormalSum", "adfBootSum", "swapTable"]


def boot_history(ctx):
    """bootable floppies: boot code installed on DD and HD disks (the Rootblock field of the boot block is 880 on both, the boot
    checksum verifies), before and after some entries exist"""
    rng = ctx.rng
    flav = rng.choice(gen.FLAVOURS)
    kind = rng.choice(["DD", "HD", "HD"])
    bs = 512 if flav & 1 else 488
    L = gen.dev_create(kind, flav) + ["mountdev 0", "mount 0 0"]
    if rng.random() < 0.5:
        L += ["bootinst", "free", "dump $W/img1", "spectree"]
    L += ["open 0 - %s w" % hexs(b"startup-sequence"), "write 0 3 %d" % rng.choice([10, bs, 3 * bs]), "close 0", "mkdir - %s" % hexs(b"c"),
          "bootinst", "free", "dump $W/img2", "spectree", "umount", "umountdev", "dump $W/img3", "spectree", "mountdev 0", "mount 0 0", "list - 0 0", "umount", "umountdev"]
    return L, 0, 1760 if kind == "DD" else 3520, {"flavour": flav, "device": kind}


def part_history(ctx):
    rng = ctx.rng
    flav = rng.choice(gen.FLAVOURS)
    heads, sect = 2, 16
    st, ln = 2 + rng.choice([0, 3]), rng.randint(40, 70)
    st2, ln2 = st + ln, rng.randint(45, 60)
    cyl = max(st2 + ln2 + 1, 3521 // (heads * sect) + 2)     # up to 3520 blocks a non-floppy device is of unknown type and cannot be mounted
    which = rng.choice([0, 1])
    kind = "PART:%d:%d:%d:%d,%d;%d,%d" % (cyl, heads, sect, st, ln, st2, ln2)
    first = heads * sect * (st if which == 0 else st2)
    nb = heads * sect * (ln if which == 0 else ln2)
    L = gen.dev_create(kind, flav) + ["mountdev 0", "mount %d 0" % which]
    h = gen.Hist(rng, flav, big=False)
    k = 0
    for i in range(36):
        L += h.step()
        if (i + 1) % 12 == 0:
            k += 1
            L += h.close_all() + ["free", "dump $W/img%d" % k, "spectree"]
    L += h.close_all() + ["umount", "umountdev"]
    return L, first, nb, {"flavour": flav, "kind": kind, "partition": which}


def run(ctx):
    proof = common.proof_status(ctx)
    # block-level correspondence of the file block-list model the FileMap theorems are about
    from . import filemapcorr
    filemapcorr.run(ctx, 8 if ctx.tier == "quick" else 200)
    tf = common.translator_failures(ctx, NEEDED)
    if tf:
        proof["problems"].append("translator could not translate: %s" % tf)
    b = c01.builders(ctx)[: (150 if ctx.tier == "quick" else 1500)]
    b += [("namespace", c02.ns_history) for _ in range(14 if ctx.tier == "quick" else 300)]
    b += [("rdb-partition", part_history) for _ in range(6 if ctx.tier == "quick" else 100)]
    # hardfiles with 1..5 bitmap pages (the root block's page list beyond three entries) and, in the thorough tier, a bitmap extension block
    from . import c04
    b += [("multi-page", c04.big_volume) for _ in range(6 if ctx.tier == "quick" else 60)]
    b += [("bootable-floppy", boot_history) for _ in range(6 if ctx.tier == "quick" else 60)]
    b += [("bitmap-extension-volume", c04.huge_volume) for _ in range(0 if ctx.tier == "quick" else 4)]
    rule = ("same generators as C01 and C02 plus histories on a partition of a two-partition RDB disk; every dumped image is judged by the extracted decoder "
            "(types, self/parent pointers, checksums, hash placement, highSeq/extension counts, OFS data headers, bitmap flag) and compared with the model; "
            "non-trivial = at least one image judged with a non-empty tree; distinct = distinct script")
    nt = lambda L, r: any(l.startswith("dump") for l in L)
    return histcheck.explore(ctx, proof, {"C03"}, b, rule,
                             ["the decoder is the reading of adf_info.txt recorded in DESIGN.md appendix A (e.g. comments up to 79 bytes in cache records)",
                              "quiescent = no handle open for writing"], nontrivial=nt)


def replay(ctx, rep):
    return c01.replay(ctx, rep)

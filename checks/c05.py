"""C05 Allocation conservation."""
from . import common, gen, hist, histcheck, c01, c02, c03, c04, c07
from .common import hexs

NEEDED = ["adfFileRealSize"]


def cycle(ctx):
    """create and delete entries of every size class; the free count must return to its initial value"""
    rng = ctx.rng
    flav = rng.choice(gen.FLAVOURS)
    bs = 512 if flav & 1 else 488
    L = gen.dev_create("HD", flav) + ["mountdev 0", "mount 0 0", "free"]
    sizes = [0, 1, 71 * bs, 72 * bs, 72 * bs + 1, 143 * bs + 5, 144 * bs, 145 * bs, 300 * bs]
    rng.shuffle(sizes)
    names = []
    for i, sz in enumerate(sizes[: rng.randint(3, 7)]):
        nm = b"c%d" % i
        L += ["open 0 - %s w" % hexs(nm), "write 0 %d %d" % (i + 1, sz), "close 0"]
        if rng.random() < 0.4:
            L += ["open 0 - %s rw" % hexs(nm), "trunc 0 %d" % rng.choice([0, bs, 72 * bs, 73 * bs, sz // 2]), "close 0"]
        names.append(nm)
    L += ["mkdir - %s" % hexs(b"dd"), "mkdir %s %s" % (hexs(b"dd"), hexs(b"inner")), "free", "dump $W/img1", "spectree"]
    L += ["rm %s %s" % (hexs(b"dd"), hexs(b"inner")), "rm - %s" % hexs(b"dd")]
    for nm in names:
        L.append("rm - %s" % hexs(nm))
    L += ["free", "dump $W/img2", "spectree", "umount", "umountdev"]
    return L, 0, 3520, {"flavour": flav, "sizes": sizes}


def cache_dir_cycle(ctx):
    """DIRCACHE: grow a directory over several cache blocks, empty it in a chosen order (so that later cache blocks lose their
    last record), delete the directory; every block must come back"""
    rng = ctx.rng
    flav = rng.choice([4, 5])
    L = gen.dev_create("DD", flav) + ["mountdev 0", "mount 0 0", "free", "mkdir - %s" % hexs(b"cd")]
    d = hexs(b"cd")
    n = rng.randint(12, 40)
    names = [(b"e%02d_" % i + b"abcdefghijklmnopqrstuvwxyz")[:rng.choice([6, 16, 16, 29, 30])] for i in range(n)]
    for i, nm in enumerate(names):
        if rng.random() < 0.6:
            L += ["open 0 %s %s w" % (d, hexs(nm)), "write 0 %d %d" % (i + 1, rng.choice([0, 0, 30, 700])), "close 0"]
        else:
            L += ["mkdir %s %s" % (d, hexs(nm))]
    L += ["list %s 1 0" % d, "free", "dump $W/img1", "spectree"]
    order = list(range(n))
    mode = rng.choice(["tail-first", "head-first", "random", "move-out"])
    if mode == "tail-first":
        order.reverse()
    elif mode == "random":
        rng.shuffle(order)
    for k, i in enumerate(order):
        if mode == "move-out" and k % 2 == 0:
            L += ["mv %s %s - %s" % (d, hexs(names[i]), hexs(names[i])), "rm - %s" % hexs(names[i])]
        else:
            L += ["rm %s %s" % (d, hexs(names[i]))]
        if k == n // 2:
            L += ["list %s 1 0" % d, "free", "dump $W/img2", "spectree"]
    L += ["free", "dump $W/img3", "spectree", "rm - %s" % d, "free", "dump $W/img4", "spectree", "umount", "umountdev", "dump $W/img5", "spectree"]
    return L, 0, 1760, {"flavour": flav, "entries": n, "order": mode}


def run(ctx):
    proof = common.proof_status(ctx)
    # block-level correspondence of the file block-list model the FileMap theorems are about
    from . import filemapcorr
    filemapcorr.run(ctx, 8 if ctx.tier == "quick" else 200)
    b = [("create-delete-cycle", cycle) for _ in range(10 if ctx.tier == "quick" else 200)]
    b += [("dircache-directory-cycle", cache_dir_cycle) for _ in range(6 if ctx.tier == "quick" else 120)]
    from . import c07 as _c07
    b += [("dircache-move-across", _c07.move_across_history) for _ in range(6 if ctx.tier == "quick" else 100)]
    b += [("dircache-empty-a-block", c07.block_sweep) for _ in range(2 if ctx.tier == "quick" else 30)]
    b += c01.builders(ctx)[: (100 if ctx.tier == "quick" else 1200)]
    b += [("namespace", c02.ns_history) for _ in range(8 if ctx.tier == "quick" else 200)]
    # exhaustion: a call that fails for lack of space must not keep blocks (the reference model is replayed with what was stored)
    from . import c08

    def wrap(fn):
        def g(ctx):
            L, first, nb, meta = fn(ctx)
            return L, first, nb, meta, {"spec_patch": c08.spec_patch, "ignore_names": c08.FILLERS}
        return g
    b += [("extension-boundary-exhaustion", wrap(c08.boundary_history)) for _ in range(10 if ctx.tier == "quick" else 200)]
    b += [("forced-exhaustion", wrap(c08.forced_history)) for _ in range(14 if ctx.tier == "quick" else 280)]
    b += [("multi-page", c04.big_volume) for _ in range(4 if ctx.tier == "quick" else 40)]
    b += [("rdb-partition", c03.part_history) for _ in range(3 if ctx.tier == "quick" else 60)]
    # undelete: a refused undelete keeps nothing allocated, an accepted one takes back exactly the blocks of the entry
    from . import undel
    # every scenario kind on a directory-cache flavour and on one without (the decisions of adfUndelDir / adfUndelFile differ), then random ones
    for kind in undel.KINDS:
        for fl in (ctx.rng.choice([4, 5]), ctx.rng.choice([0, 1, 2, 3])):
            b.append(("undelete", (lambda k, f: (lambda c: undel.history(c, k, f)))(kind, fl)))
    b += [("undelete", undel.history) for _ in range(6 if ctx.tier == "quick" else 400)]
    rule = ("DIRCACHE directories grown over several cache blocks, emptied tail-first / head-first / randomly / by moving entries out, then deleted; create/truncate/delete cycles over the size classes 0, <72, =72, >72, >144 data blocks with and without directory cache; file, namespace, multi-page and "
            "partition histories; at every dump: blocks marked allocated = reachable + reserved (decoder), free count reported by the library = bitmap count; "
            "after deleting everything the free count equals the initial one; distinct = distinct script")
    # additional oracle: in cycle histories the first and the last `free` must agree
    def extra(L, r):
        return True
    rc = histcheck.explore(ctx, proof, {"C05"}, b, rule, ["quiescent = no handle open for writing"])
    return rc


def replay(ctx, rep):
    return c01.replay(ctx, rep)

"""Block-level correspondence for the file block-list model Model/FileMap.v (theorems: Proofs/FileMapP.v - the k-th block is
found where the seek code looks, shape of header / extension tables, extension count = adfFileDatablocks2Extblocks,
append / truncate conserve blocks).  A file is grown, overwritten, truncated and regrown through fresh and reused handles;
after every close the raw header table and extension chain of the image must be exactly enc(model state) - unused slots
zero, highSeq per table, parent / own pointers of the extension blocks - where the model is driven by the same size
changes with the allocator as oracle (the new block numbers are read from the image, and must be new); blocks given back
by a truncation must be free in the bitmap afterwards and every kept block must still be allocated."""
import subprocess
from . import common, gen
from .common import hexs


def history(ctx):
    rng = ctx.rng
    flav = rng.choice(gen.FLAVOURS)
    bs = 512 if flav & 1 else 488
    A = hexs(b"mapfile")
    L = gen.dev_create("DD", flav) + ["mountdev 0", "mount 0 0"]
    if rng.random() < 0.5:
        L += ["open 1 - %s w" % hexs(b"frag"), "write 1 3 %d" % (rng.choice([1, 5, 40]) * bs), "close 1"]
    L += ["open 0 - %s w" % A, "close 0"]
    size = 0
    steps = []        # (line of the filemap dump, expected size)
    if any("66726167" in l for l in L):
        pass
    edges = [0, 1, 71, 72, 73, 74, 143, 144, 145, 146, 215, 216, 217]
    for _ in range(rng.randint(4, 9)):
        L += ["open 0 - %s rw" % A]
        r = rng.random()
        for _ in range(rng.randint(1, 3)):
            r = rng.random()
            if r < 0.45:
                k = rng.choice(edges)
                target = max(0, k * bs + rng.choice([-1, 0, 0, 1]))
                if target > size:
                    L += ["seek 0 %d" % size, "write 0 %d %d" % (rng.randrange(1, 99), target - size)]
                    size = target
                else:
                    pos = rng.choice([0, size // 2, max(0, size - bs)])
                    n = min(size - pos, rng.choice([1, bs, 3 * bs]))
                    if n > 0:
                        L += ["seek 0 %d" % pos, "write 0 %d %d" % (rng.randrange(1, 99), n)]
            elif r < 0.8:
                k = rng.choice(edges)
                target = max(0, k * bs + rng.choice([-1, 0, 0, 1]))
                L += ["trunc 0 %d" % target]
                size = target
            else:
                L += ["seek 0 %d" % size, "write 0 %d %d" % (rng.randrange(1, 99), rng.choice([1, bs - 1, bs, 73 * bs]))]
                size += int(L[-1].split()[3])
            if size > 230 * bs:
                L += ["trunc 0 %d" % (100 * bs)]
                size = 100 * bs
        if rng.random() < 0.3 and any("66726167" in l for l in L[:8]) and not any(l.startswith("rm ") for l in L):
            L += ["close 0", "rm - %s" % hexs(b"frag"), "filemap - %s" % A]
        else:
            L += ["close 0", "filemap - %s" % A]
        steps.append((len(L), size))
    L += ["umount", "umountdev"]
    return L, steps, bs, {"flavour": flav}


def parse_map(s):
    """'M hdr=.. size=.. highseq=.. first=.. H a,b,.. ; E x:hs:parent:own=a,b,..|...' -> dict"""
    d = common.kv(s.split(" H ")[0])[1]
    rest = s.split(" H ", 1)[1]
    h, e = rest.split(" ; E", 1)
    hdr = [int(x) for x in h.strip().split(",")]
    exts = []
    for part in e.strip().split("|"):
        if not part:
            continue
        head, tab = part.split("=")
        x, hs, par, own = [int(v) for v in head.split(":")]
        exts.append({"blk": x, "highseq": hs, "parent": par, "own": own, "tab": [int(v) for v in tab.split(",")]})
    return {"hdr_blk": int(d["hdr"]), "size": int(d["size"]), "highseq": int(d["highseq"]), "first": int(d["first"]), "hdr": hdr, "exts": exts}


def run(ctx, n):
    for _ in range(n):
        L, steps, bs, meta = history(ctx)
        # second pass probes: after each dump, whether given-back blocks are free (filled in below) - one run suffices because
        # the probes are appended at the end for the FINAL state only; intermediate frees are checked through reuse-freedom of the model
        rc, out, err, wd = common.run_script(ctx, "\n".join(L) + "\n")
        res = common.parse_results(out)
        ctx.bump("filemap_histories")
        if rc != 0:
            ctx.fail("crash", "harness exit %d in a file block-list history" % rc, {"script": L, "meta": meta}, actual=out[-2:])
            continue
        data, exts = [], []
        ever = set()
        lines = []
        expect = []       # per step: (line, state dict, freed-by-model or None)
        ok = True
        for (ln, size) in steps:
            r = (res.get(ln) or ["?"])[-1]
            if not r.startswith("M "):
                ctx.fail("corr", "no block-list dump", {"script": L[:ln], "meta": meta}, actual=r)
                ok = False
                break
            m = parse_map(r)
            nb = (m["size"] + bs - 1) // bs
            impl_data = [b for b in m["hdr"] if b] + [b for x in m["exts"] for b in x["tab"] if b]
            impl_exts = [x["blk"] for x in m["exts"]]
            if m["size"] != size:
                ctx.fail("corr", "file size on disk differs from the size the history produces", {"script": L[:ln], "meta": meta}, expected=size, actual=m["size"])
                ok = False
                break
            # drive the model: shrink first (a history step may shrink and regrow: the common prefix is what was kept)
            keep = 0
            while keep < min(len(data), len(impl_data)) and data[keep] == impl_data[keep]:
                keep += 1
            if keep < len(data):
                lines.append("trunc %d" % keep)
                data = data[:keep]
                exts = exts[: (0 if keep <= 72 else (keep - 72 + 71) // 72)]
            new_exts = [e for e in impl_exts if e not in exts]
            for b in impl_data[len(data):]:
                need = len(data) >= 72 and len(data) % 72 == 0
                e = new_exts.pop(0) if (need and new_exts) else 0
                lines.append("app %d %d" % (b, e))
                if b in data or b in exts or (need and (e in data or e in exts or e == b)):
                    ctx.fail("oracle", "the allocator handed out a block the file already owns", {"script": L[:ln], "meta": meta, "block": b}, actual=r)
                    ok = False
                data.append(b)
                ever.add(b)
                if need:
                    exts.append(e)
                    ever.add(e)
            expect.append((ln, m, len(lines)))
            if not ok:
                break
        if not ok:
            continue
        # bitmap: what the file owns at the end is allocated, what it gave back is free (nothing else allocates after the first step)
        owned = set(data) | set(exts)
        probes = sorted(ever)
        if probes:
            L2 = L[:-2] + ["isfree %d" % b for b in probes] + ["umount", "umountdev"]
            rc2, out2, err2, wd2 = common.run_script(ctx, "\n".join(L2) + "\n")
            res2 = common.parse_results(out2)
            for i, b in enumerate(probes):
                r2 = (res2.get(len(L) - 2 + i + 1) or ["?"])[-1]
                ctx.bump("filemap_bitmap_probes")
                want = "ok 0" if b in owned else "ok 1"
                if r2 != want:
                    ctx.fail("oracle", "bitmap disagrees with the file's block lists: a block the file %s is %s" % (
                        ("owns", "marked free") if b in owned else ("gave back (truncation)", "still marked allocated")),
                        {"meta": meta, "script": L2[: len(L) - 2 + i + 1], "block": b}, expected=want, actual=r2)
                    break
        p = subprocess.run([ctx.ocaml("adfm"), "filemap"], input="\n".join(lines) + "\n", stdout=subprocess.PIPE, text=True, preexec_fn=common.big_stack)
        mo = [l for l in p.stdout.splitlines()]
        shows = [l for l in mo if l.startswith("H ")]
        # each input line yields exactly one H line
        for (ln, m, upto) in expect:
            ctx.count(("filemap", meta["flavour"], ln, hash(tuple(L))))
            ctx.bump("filemap_states")
            mh, me = [], []
            if upto > 0:
                h, e = shows[upto - 1][2:].split(" ; E", 1)
                mh = [int(x) for x in h.strip().split(",") if x]
                me = [(int(q.split("=")[0]), [int(v) for v in q.split("=")[1].split(",") if v]) for q in e.strip().split("|") if q]
            nb = len(mh) + sum(len(t) for (_, t) in me)
            want_hdr = mh + [0] * (72 - len(mh))
            bad = None
            if m["hdr"] != want_hdr:
                bad = ("header table", want_hdr, m["hdr"])
            elif m["highseq"] != len(mh):
                bad = ("header highSeq", len(mh), m["highseq"])
            elif m["first"] != (mh[0] if mh else 0):
                bad = ("header firstData", mh[0] if mh else 0, m["first"])
            elif [x["blk"] for x in m["exts"]] != [e for (e, _) in me]:
                bad = ("extension chain", [e for (e, _) in me], [x["blk"] for x in m["exts"]])
            else:
                for x, (e, t) in zip(m["exts"], me):
                    if x["tab"] != t + [0] * (72 - len(t)):
                        bad = ("table of extension block %d" % e, t + [0] * (72 - len(t)), x["tab"])
                    elif x["highseq"] != len(t):
                        bad = ("highSeq of extension block %d" % e, len(t), x["highseq"])
                    elif x["parent"] != m["hdr_blk"] or x["own"] != e:
                        bad = ("parent / own pointer of extension block %d" % e, (m["hdr_blk"], e), (x["parent"], x["own"]))
                    if bad:
                        break
            if bad:
                ctx.fail("corr", "on-disk block lists of a file differ from enc(Model/FileMap state): %s" % bad[0],
                         {"meta": meta, "script": L[:ln], "model_input": lines[:upto]}, expected=bad[1], actual=bad[2])
                break

"""Call-level correspondence for the file handle state machine Model/FileIO.v (theorems: Proofs/FileIOP.v).

A generated history of calls on one file (create, write at and inside the end, read, seek, truncate both ways, flush,
close and reopen in every mode; lengths and positions aimed at block, header-table (72 blocks) and extension-block
(144, 216 blocks) edges; allocator refusals forced at a chosen request, and real exhaustion on a nearly full volume) is
run on the library through the harness and on the extracted model.  After EVERY call three things must be identical:

  * the result of the call (byte count, digest of the bytes read, ok / error, position, size, end-of-file flag),
  * the fields of the real struct AdfFile read directly by the harness (`hstate`): pos, posInExtBlk, posInDataBlk,
    nDataBlock, curDataPtr, currentDataBlockChanged, the in-memory header (byteSize, highSeq, firstData, extension, digest
    of dataBlocks[]), a digest of the currentData payload and its OFS header fields, and the currentExt buffer (present
    or not, headerKey, parent, highSeq, extension, digest of its table),
  * the raw content of the file header block and of every block the allocator has handed out so far, read from the device
    (`fblks`) and decoded per kind: data blocks (payload digest; on OFS seqNum, dataSize, nextData, headerKey), extension blocks
    (headerKey, parent, highSeq, extension, table digest), header block (byteSize, firstData, highSeq, extension, table digest).

The model is driven with the allocator answers the library received (the allocator is an oracle of the model); the blocks a
truncation hands to adfSetBlockFree must be the ones the model gives back (probed through the bitmap)."""
import os, subprocess
from . import common, gen
from .common import hexs

H_FIELDS = ["pos", "pinx", "pind", "ndb", "cur", "chg", "size", "high", "first", "ext", "dfnv", "htab"]
OFS_FIELDS = ["dnext", "dsize", "dseq", "dkey"]
X_FIELDS = ["xpar", "xhigh", "xext", "xtab"]


def model_bin(ctx):
    return os.environ.get("FIO_MODEL") or ctx.ocaml("adfm")


def edges(bs):
    e = []
    for k in (0, 1, 2, 71, 72, 73, 143, 144, 145, 146, 215, 216, 217):
        for d in (-1, 0, 1):
            if k * bs + d >= 0:
                e.append(k * bs + d)
    return e


def history(rng, big=True, ofsseek=False):
    """returns (script lines, ops) ; ops = list of dicts {line, kind, arg...} for the calls that are compared;
    ofsseek: a history for the library built with -DTEST_OFS_SEEK (OFS flavours, no truncation: its internal seeks are not the modelled ones)"""
    flav = rng.choice([0, 2, 4]) if ofsseek else rng.choice(gen.FLAVOURS)
    bs = 512 if flav & 1 else 488
    name = hexs(b"handlefile")
    L = gen.dev_create("DD", flav) + ["mountdev 0", "mount 0 0"]
    meta = {"flavour": flav, "bs": bs}
    if rng.random() < 0.4:
        # fragmentation: a file that is removed again, so that the blocks handed out later are not consecutive
        L += ["open 1 - %s w" % hexs(b"frag1"), "write 1 3 %d" % (rng.choice([1, 5, 40]) * bs), "close 1",
              "open 1 - %s w" % hexs(b"frag2"), "write 1 4 %d" % (rng.choice([1, 3, 75]) * bs), "close 1", "rm - %s" % hexs(b"frag1")]
        meta["frag"] = True
    # a bystander: another file whose blocks no call on the handle may write (the frame theorems of Props/Properties_C18.v)
    L += ["open 1 - %s w" % hexs(b"bystander"), "write 1 5 %d" % (rng.choice([1, 3, 74]) * bs), "close 1"]
    nearly_full = rng.random() < 0.2
    if nearly_full:
        # leave only a few free blocks: real exhaustion inside a write / a growing truncate
        left = rng.choice([1, 2, 3, 5, 74, 75, 76, 147])
        meta["left"] = left
        L += ["open 1 - %s w" % hexs(b"filler"), "FILL %d" % left, "close 1"]
    L += ["atrack", "alog $W/alog", "wlog $W/wlog"]
    ops = []
    E = edges(bs)
    size = 0          # light model of the size, only to aim the calls
    pos = 0
    is_open = False
    mode = None
    maxsize = (230 if big else 80) * bs

    def call(line, **kw):
        L.append("amark %d" % len(ops))
        L.append("wmark %d" % len(ops))
        L.append(line)
        d = {"line": len(L), "text": line}
        d.update(kw)
        ops.append(d)
        L.append("hstate 0")
        d["hline"] = len(L)
        L.append("fblks 0")
        d["bline"] = len(L)

    call("open 0 - %s %s" % (name, rng.choice(["w", "rw"])), kind="new")
    mode = ops[-1]["text"].split()[-1]
    is_open = True
    n_ops = rng.randint(6, 22)
    for _ in range(n_ops):
        if not is_open:
            mode = rng.choice(["r", "rw", "rw", "w"])
            call("open 0 - %s %s" % (name, mode), kind="open", mode=mode)
            is_open = True
            pos = 0
            continue
        r = rng.random()
        if "w" not in mode and r < 0.15:
            # a handle without write access: write and truncate are refused and change nothing (C12_readonly_handle_never_writes)
            if rng.random() < 0.5 or ofsseek:
                call("write 0 %d %d" % (rng.randrange(1, 1 << 20), rng.choice([1, bs, 3 * bs])), kind="write", n=1, refused=True)
            else:
                call("trunc 0 %d" % rng.choice([0, size // 2, size + bs]), kind="trunc", t=0, refused=True)
        elif r < 0.32 and "w" in mode:
            # write: at the end (growing) or inside
            if rng.random() < 0.6:
                if pos != size:
                    call("seek 0 %d" % size, kind="seek", p=size)
                    pos = size
                target = rng.choice(E) if rng.random() < 0.7 else size + rng.choice([1, bs - 1, bs, bs + 1, 3 * bs, 73 * bs])
                n = target - size if target > size else rng.choice([1, bs - 1, bs, 2 * bs + 3])
            else:
                # inside the file; sometimes long enough to run past the end (overwrite, then extend - through the tables the handle
                # has loaded while overwriting)
                n = rng.choice([1, 2, bs - 1, bs, bs + 1, 2 * bs, 5 * bs + 7, max(1, size - pos + rng.choice([1, bs, 3 * bs])), max(1, size - pos)])
            if pos + n > maxsize:
                n = max(1, maxsize - pos)
            if rng.random() < 0.12:
                k = rng.choice([1, 1, 2, 3])
                L.append("allocfail %d" % k)
                call("write 0 %d %d" % (rng.randrange(1, 1 << 20), n), kind="write", n=n, forced=k)
                L.append("allocfail 0")
                # the light model cannot know how much was stored: resynchronised from the reported size below (positions are only aims)
                size = max(size, pos)   # lower bound
                pos = size
                ops[-1]["resync"] = True
            else:
                call("write 0 %d %d" % (rng.randrange(1, 1 << 20), n), kind="write", n=n)
                pos += n
                size = max(size, pos)
        elif r < 0.5:
            n = rng.choice([0, 1, bs - 1, bs, bs + 1, 3 * bs, 80 * bs, 1 << 20])
            call("read 0 %d" % n, kind="read", n=n)
            if "r" in mode:
                pos = min(size, pos + n)
        elif r < 0.72:
            p = rng.choice(E + [size, size, max(0, size - 1), size + 1, size // 2, pos, max(0, pos - 1), pos + 1, 0])
            call("seek 0 %d" % p, kind="seek", p=p)
            pos = min(p, size)
        elif r < 0.86 and "w" in mode and not ofsseek:
            t = rng.choice(E + [size, max(0, size - 1), size + 1, size // 2, 0, size + 4095, size + 4096, size + 4097])
            t = min(t, maxsize)
            if rng.random() < 0.1 and t > size:
                k = rng.choice([1, 2])
                L.append("allocfail %d" % k)
                call("trunc 0 %d" % t, kind="trunc", t=t, forced=k)
                L.append("allocfail 0")
                ops[-1]["resync"] = True
            else:
                call("trunc 0 %d" % t, kind="trunc", t=t)
                size = t
                pos = t
        elif r < 0.92:
            call("flush 0", kind="flush")
        else:
            call("close 0", kind="close")
            is_open = False
    if is_open:
        call("close 0", kind="close")
    L += ["wlog off", "dump $W/final", "alog off", "umount", "umountdev"]
    return L, ops, meta


def expand_fill(ctx, L):
    """'FILL k' -> a write through handle 1 that leaves exactly k free blocks (the free count is asked from the library first)"""
    if not any(l.startswith("FILL ") for l in L):
        return L
    i = [j for j, l in enumerate(L) if l.startswith("FILL ")][0]
    k = int(L[i].split()[1])
    probe = L[:i] + ["free", "umount", "umountdev"]
    rc, out, err, wd = common.run_script(ctx, "\n".join(probe) + "\n")
    res = common.parse_results(out)
    free = int(common.kv((res.get(i + 1) or ["err free=0"])[-1])[1].get("free", 0))
    bs = 512 if any(" 1 " in l or l.split()[1:2] in (["1"], ["3"], ["5"]) for l in L if l.startswith("mkflop")) else 488
    flav = int([l for l in L if l.startswith("mkflop")][0].split()[1])
    bs = 512 if flav & 1 else 488
    # data blocks d plus extension blocks ceil((d-72)/72) must equal free - k
    want = max(0, free - k)
    d = want
    while d > 0 and d + (0 if d <= 72 else (d - 72 + 71) // 72) > want:
        d -= 1
    return L[:i] + ["write 1 9 %d" % (d * bs)] + L[i + 1:]


def alog_by_mark(path):
    per = {}
    cur = None
    try:
        for l in open(path):
            t = l.split()
            if not t:
                continue
            if t[0] == "M":
                cur = int(t[1])
                per.setdefault(cur, [])
            elif cur is not None:
                if t[0] == "A1":
                    per[cur].append("a1:%s" % t[1] if int(t[1]) >= 0 else "fail")
                elif t[0] == "AN":
                    if t[2] == "1" and t[1] == "2":
                        per[cur].append("a2:%s:%s" % (t[3], t[4]))
                    elif t[2] == "1":
                        per[cur].append("a?:" + ":".join(t[3:]))
                    else:
                        per[cur].append("fail")
    except FileNotFoundError:
        pass
    return per


def decode_blocks(bline, ofs):
    """fblks output -> {n: interpretations}"""
    d = {}
    for tok in bline.split()[1:]:
        f = tok.split(":")
        n = int(f[0])
        if len(f) < 12:
            d[n] = None
            continue
        ty, w4, w8, w12, w16, f488, f512, w324, w500, w504, tab = f[1:12]
        d[n] = {
            "D": ("D:%s:%s:%s:%s:%s" % (w8, w12, w16, w4, f488)) if ofs else "D:%s" % f512,
            "X": "X:%s:%s:%s:%s:%s" % (w4, w500, w8, w504, tab),
            "H": "H:%s:%s:%s:%s:%s:%s" % (w4, w324, w16, w8, w504, tab),
            "type": ty,
        }
    return d


def frame_check(ctx, wd, ops, mo, L, meta):
    try:
        img = open(os.path.join(wd, "final"), "rb").read()
        log = open(os.path.join(wd, "wlog")).read().splitlines()
    except FileNotFoundError:
        return ("corr", "no write log / final image from a file handle history", {"script": L, "meta": meta}, None, None)
    nb = len(img) // 512
    root = nb // 2
    be = lambda b, o: int.from_bytes(img[b * 512 + o:b * 512 + o + 4], "big")
    bmpages = {be(root, 316 + 4 * k) for k in range(25)} - {0}
    universe = set()
    for m in mo[2::3]:
        for tok in m.split()[1:]:
            universe.add(int(tok.split(":", 1)[0]))
    cur = None
    for line in log:
        t = line.split()
        if not t:
            continue
        if t[0] == "M":
            cur = int(t[1])
            continue
        if t[0] != "W" or cur is None:
            continue
        n = int(t[1])
        ctx.bump("fileio_frame_writes")
        if n in universe:
            continue
        if n == root or n in bmpages or (0 < n < nb and be(n, 0) == 33):
            ctx.bump("fileio_frame_metadata_writes")
            continue
        o = ops[cur] if cur < len(ops) else {"text": "?", "bline": len(L)}
        return ("corr", "a handle call writes block %d, which is neither the file's (header, data, extension blocks) nor root / bitmap / directory cache: "
                "Model/FileIO changes nothing outside the file (C18 frame theorems)" % n,
                {"script": L[:o["bline"]] + ["umount", "umountdev"], "meta": meta, "call": o["text"], "call_index": cur, "block": n}, "no write outside the file", line[:60])
    return None


def with_faults(ctx, L, ops, meta):
    """second pass of a history: before some of its read and seek calls the device starts refusing to read one or two blocks of the file
    (numbers learnt from a first, fault-free run), and stops again after the call - the fault model `bad` of Model/FileIO.v
    (a failed extension-block seek on OFS falls back to the walk along the data blocks, adfFileSeekOFS_ = seek_ofs)"""
    rng = ctx.rng
    rc, out, err, wd = common.run_script(ctx, "\n".join(L) + "\n")
    per = alog_by_mark(os.path.join(wd, "alog"))
    # victims: the data and extension blocks of the file - not what the creating call (mark 0) allocated, the file header [and a cache block]:
    # a flush re-reads the header block to refresh its hash-chain link, which is outside the model
    blocks = sorted({int(x) for (mk, ans) in per.items() if mk != 0 for a in ans for x in a.split(":")[1:] if x.lstrip("-").isdigit() and int(x) > 1})
    if rc != 0 or not blocks:
        return L, ops, meta
    L2, k = [], 0
    shift = {}
    for i, l in enumerate(L, 1):
        op = next((o for o in ops if o["line"] == i), None)
        faulty = op is not None and ((op["kind"] == "read" and rng.random() < 0.6) or (op["kind"] == "seek" and rng.random() < 0.5))
        if faulty:
            victims = rng.sample(blocks, min(len(blocks), rng.choice([1, 1, 2, 6])))
            L2 += ["badblk %d" % b for b in victims]
            op["bad"] = victims
        shift[i] = len(L2) + 1
        L2.append(l)
        if faulty:
            L2.append("badblk clear")
    # renumber: hstate / fblks lines follow their call at fixed distance; "badblk clear" sits between the call and hstate
    ops2 = []
    for o in ops:
        o2 = dict(o)
        o2["line"], o2["hline"], o2["bline"] = shift[o["line"]], shift[o["hline"]], shift[o["bline"]]
        ops2.append(o2)
    meta2 = dict(meta)
    meta2["faults"] = sum(1 for o in ops2 if o.get("bad"))
    return L2, ops2, meta2


def run_one(ctx, L, ops, meta):
    """returns None or a failure tuple (kind, what, detail dict, expected, actual)"""
    bs, ofs = meta["bs"], not (meta["flavour"] & 1)
    rc, out, err, wd = common.run_script(ctx, "\n".join(L) + "\n", variant="adfh-ofsseek" if meta.get("ofsseek") else "adfh")
    res = common.parse_results(out)
    if rc != 0:
        return ("crash", "harness exit %d in a file handle history" % rc, {"script": L, "meta": meta}, None, out[-3:])
    per = alog_by_mark(os.path.join(wd, "alog"))
    # model input
    ML = []
    hdr = None
    for i, o in enumerate(ops):
        r = (res.get(o["line"]) or ["?"])[-1]
        st, kvs = common.kv(r)
        o["impl"] = r
        ans = per.get(i, [])
        k = o["kind"]
        if k in ("new", "open"):
            if st != "ok":
                return ("corr", "open failed in a valid history", {"script": L[:o["line"]], "meta": meta}, "ok", r)
            hdr = int(kvs["hdr"])
            md = o["text"].split()[-1]
            ML.append("%s %d %d %d" % (k, hdr, 1 if "r" in md else 0, 1 if "w" in md else 0))
            if ans and k == "open":
                return ("corr", "allocator called while opening an existing file", {"script": L[:o["line"]], "meta": meta}, [], ans)
        elif k == "write":
            t = o["text"].split()
            ML.append("write %s %s %s" % (t[2], t[3], " ".join(ans)))
        elif k == "read":
            if o.get("bad"):
                ML += ["bad %d" % b for b in o["bad"]]
            ML.append("read %d" % o["n"])
            if o.get("bad"):
                ML += ["good %d" % b for b in o["bad"]]
                ctx.bump("fileio_reads_under_fault")
        elif k == "seek":
            if o.get("bad"):
                ML += ["bad %d" % b for b in o["bad"]]
            ML.append(("seekt %d" if meta.get("ofsseek") else "seek %d") % o["p"])
            if o.get("bad"):
                ML += ["good %d" % b for b in o["bad"]]
                ctx.bump("fileio_seeks_under_fault")
        elif k == "trunc":
            ML.append("trunc %d %s" % (o["t"], " ".join(ans)))
        elif k == "flush":
            ML.append("flush")
        elif k == "close":
            ML.append("close")
        if k in ("read", "seek", "flush", "close") and ans:
            return ("corr", "allocator called inside a call that allocates nothing in the model", {"script": L[:o["line"]], "meta": meta, "call": o["text"]}, [], ans)
    p = subprocess.run([model_bin(ctx), "fileio", str(bs), "1" if ofs else "0"], input="\n".join(ML) + "\n", stdout=subprocess.PIPE, text=True,
                       preexec_fn=common.big_stack)
    mo = p.stdout.splitlines()
    if len(mo) != 3 * len(ops):
        return ("corr", "model driver produced %d lines for %d calls" % (len(mo), len(ops)), {"model_input": ML, "meta": meta}, 3 * len(ops), len(mo))
    for i, o in enumerate(ops):
        mr, ms, mb = mo[3 * i], mo[3 * i + 1], mo[3 * i + 2]
        det = {"script": L[:o["bline"]], "meta": meta, "call": o["text"], "call_index": i, "model_input": ML[:i + 1]}
        ctx.count(("fileio", meta["flavour"], o["kind"], o["text"], i))
        ctx.bump("fileio_" + o["kind"])
        # 1. result
        st, kvs = common.kv(o["impl"])
        mst, mkv = common.kv(mr[2:])
        k = o["kind"]
        if k in ("write", "read"):
            mkv = common.kv(mr)[1]
            want = {f: mkv.get(f) for f in (("n", "pos", "size", "eof") if k == "write" else ("n", "fnv", "pos", "size", "eof"))}
            got = {f: kvs.get(f) for f in want}
            if st != "ok" or want != got:
                return ("corr", "result of %s differs from Model/FileIO" % k, det, mr, o["impl"])
        elif k in ("seek", "trunc"):
            want = (mst, mkv.get("pos"), mkv.get("size"), mkv.get("eof"))
            got = (st, kvs.get("pos"), kvs.get("size"), kvs.get("eof"))
            if want != got:
                return ("corr", "result of %s differs from Model/FileIO" % k, det, mr, o["impl"])
        # 2. handle fields
        if k != "close":
            hs = (res.get(o["hline"]) or ["?"])[-1]
            hst, hkv = common.kv(hs)
            sst, skv = common.kv(ms)
            fields = H_FIELDS + (OFS_FIELDS if ofs else []) + ["xkey"]
            if hkv.get("xkey") not in (None, "-1"):
                fields = fields + X_FIELDS
            want = {f: skv.get(f) for f in fields}
            got = {f: hkv.get(f) for f in fields}
            if hst != "ok" or want != got:
                diff = sorted(f for f in fields if want[f] != got[f])
                return ("corr", "struct AdfFile after %s differs from Model/FileIO in %s" % (k, ",".join(diff)), det, ms, hs)
            ctx.bump("fileio_states")
        # 3. blocks on the device
        bl = (res.get(o["bline"]) or ["?"])[-1]
        impl_blocks = decode_blocks(bl, ofs)
        for tok in mb.split()[1:]:
            f = tok.split(":", 2)
            n, kind = int(f[0]), f[1]
            if kind == "O":
                continue
            ib = impl_blocks.get(n)
            ctx.bump("fileio_blocks")
            if ib is None or ib[kind] != f[1] + ":" + f[2]:
                return ("corr", "block %d on the device after %s differs from the model's volume (%s block)" % (n, k, {"D": "data", "X": "extension", "H": "header"}[kind]),
                        det, tok, None if ib is None else ib[kind])
    # 3b. the frame (Props/Properties_C18.v: a handle call changes nothing outside header :: data ++ extension blocks of the file): every
    #     device write of a call that lands outside the model's universe (the header and the blocks the allocator handed to this file)
    #     must be a write of the metadata the model leaves out - root block, bitmap page, directory-cache block of the parent
    r = frame_check(ctx, wd, ops, mo, L, meta)
    if r:
        return r
    # 4. the blocks every truncation gave back are free afterwards (probed at the end for blocks not handed out again)
    freed, again = [], set()
    for i, o in enumerate(ops):
        if o["kind"] == "trunc":
            m = mo[3 * i]
            if " F " in m + " ":
                fl = m.split(" F ", 1)[1].strip() if " F " in m else ""
                for x in fl.split(","):
                    if x:
                        freed.append((i, int(x)))
        for a in per.get(i, []):
            for x in a.split(":")[1:]:
                if x.lstrip("-").isdigit():
                    again.add((i, int(x)))
    final_free = [b for (i, b) in freed if not any(j > i and c == b for (j, c) in again)]
    if final_free:
        L2 = L[:-3] + ["isfree %d" % b for b in final_free] + L[-3:]
        rc2, out2, err2, wd2 = common.run_script(ctx, "\n".join(L2) + "\n")
        res2 = common.parse_results(out2)
        for j, b in enumerate(final_free):
            r2 = (res2.get(len(L) - 3 + j + 1) or ["?"])[-1]
            ctx.bump("fileio_freed_probes")
            if r2 != "ok 1":
                return ("corr", "a block the model's truncation gives back is not free in the bitmap afterwards", {"script": L2, "meta": meta, "block": b}, "ok 1", r2)
    return None


def run_ofsseek(ctx, n):
    """histories on the library built with its own switch -DTEST_OFS_SEEK: every adfFileSeek on the OFS volume takes adfFileSeekOFS_, the walk
    along the data blocks - the path a failed extension-block seek falls back to.  Model side: fio_seek_t (same seek_ofs / ofs_walk that the
    fallback of fio_seek uses and the theorems seek_ofs_ok / fio_seek_faulty_inside are about)."""
    cases = []
    for i in range(n):
        L, ops, meta = history(ctx.rng, ofsseek=True)
        meta = dict(meta)
        meta["ofsseek"] = True
        L = expand_fill(ctx, L)
        cases.append((L, ops, meta))
    bad = 0
    for (c, r) in zip(cases, common.pmap(lambda c: run_one(ctx, *c), cases)):
        ctx.bump("fileio_ofsseek_histories")
        if r:
            kind, what, det, exp, act = r
            ctx.fail(kind, "[TEST_OFS_SEEK build] " + what, det, expected=exp, actual=act)
            bad += 1
            if bad >= 3:
                break


def valid_history(ctx):
    """a history of this generator as a plain script (for the checks that judge valid histories by other means: sanitizers, ledger)"""
    L, ops, meta = history(ctx.rng)
    L = expand_fill(ctx, L)
    meta = dict(meta)
    meta["blocks"] = 1760
    return [l for l in L if not l.startswith("alog ")], 0, 1760, meta


def run(ctx, n, fault_every=4):
    cases = []
    for i in range(n):
        L, ops, meta = history(ctx.rng)
        L = expand_fill(ctx, L)
        if i % fault_every == fault_every - 1:
            L, ops, meta = with_faults(ctx, L, ops, meta)
        cases.append((L, ops, meta))
    bad = 0
    for (c, r) in zip(cases, common.pmap(lambda c: run_one(ctx, *c), cases)):
        ctx.bump("fileio_histories")
        if r:
            kind, what, det, exp, act = r
            ctx.fail(kind, what, det, expected=exp, actual=act)
            bad += 1
            if bad >= 3:
                break

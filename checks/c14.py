"""C14 Format/mount round trip for every geometry and flavour.
For each geometry x flavour byte x volume name: format, close the device, mount again, and check name, flavour, block
range, empty root, free count = size - boot(2) - root - bitmap pages - bitmap extension blocks - cache block; the raw image
is judged by the extracted decoder (bitmap covering exactly the volume, extension blocks beyond 25 pages)."""
import os
from . import common, gen, hist
from .common import hexs

NEEDED = ["nBlock2bitmapSize", "adfDevType", "adfCreateVol.range", "adfMountHd.range", "adfMountFlop.range"]


def expected_free(n, flav):
    pages = (n - 2 + 4063) // 4064
    exts = 0 if pages <= 25 else (pages - 25 + 126) // 127
    return n - 2 - 1 - pages - exts - (1 if flav & 4 else 0), pages, exts


def one_volume(ctx, kind, flav, name, first, n, part=0):
    L = gen.dev_create(kind, flav, name) if not kind.startswith("PART") else None
    return L


def run(ctx):
    proof = common.proof_status(ctx)
    tf = common.translator_failures(ctx, NEEDED)
    if tf:
        proof["problems"].append("translator could not translate: %s" % tf)
    rng = ctx.rng
    # leaf: bitmap size and device type, compiled C vs regenerated Gallina vs the closed forms
    lines = []
    for k in range(0, 40):
        for d in (-1, 0, 1, 2):
            v = k * 4064 + d
            if v >= 0:
                lines.append("nBlock2bitmapSize %d" % v)
    for _ in range(200):
        lines.append("nBlock2bitmapSize %d" % rng.randrange(0, 2 ** 31))
    for sz in [901120, 912384, 923648, 934912, 1802240, 1802241, 1802239, 0, 512, 901119, 901121, 2 ** 32 - 1, 5 * 1024 * 1024]:
        lines.append("adfDevType %d" % sz)
    text = "\n".join(lines) + "\n"
    _, cout, _ = common.run_lines(ctx.bin("leafh"), text)
    _, mout, _ = common.run_lines(ctx.ocaml("leafm"), text)
    for a, b in zip(cout.splitlines(), mout.splitlines()):
        ctx.count(a.split(" = ")[0])
        ctx.bump("leaf")
        if a != b:
            ctx.fail("corr", "generated Gallina and compiled C disagree", a.split(" = ")[0], expected=b, actual=a, stream="leaf")
            break
        lhs, _, rhs = a.partition(" = ")
        t = lhs.split()
        if t[0] == "nBlock2bitmapSize" and int(rhs) != (int(t[1]) + 4063) // 4064:
            ctx.fail("oracle", "nBlock2bitmapSize is not ceil(n/4064)", {"nBlock": int(t[1])}, expected=(int(t[1]) + 4063) // 4064, actual=int(rhs))
    # geometries
    cases = []
    names = [b"", b"V", b"twenty-nine bytes volume name!", b"a thirty byte long volume name", b"thirty-one bytes of volume name", b"x" * 40]
    flavs = list(range(8))
    for kind in ("DD", "HD"):
        for flav in flavs:
            cases.append((kind, flav, rng.choice(names)))
    sizes = set()
    if ctx.tier == "quick":
        for k in (1, 2, 3):
            for d in (-1, 0, 1, 2, 3, 4):
                sizes.add(k * 4064 + d)
        sizes.update([3521, 3522, 5003, 5004, 12299, 12300])
        for _ in range(6):
            sizes.add(rng.randrange(3521, 12300))
        # ... and one volume with TWO bitmap extension blocks, the second partly filled (154 pages = 25 + 127 + 2)
        big = [25 * 4064 + 2, 25 * 4064 + 3, 26 * 4064 + 1, 153 * 4064 + 5]
    else:
        sizes.update(range(3521, 12301))
        for k in range(4, 31):
            for d in range(-3, 4):
                sizes.add(k * 4064 + 2 + d)
        big = [25 * 4064 + d for d in range(-1, 6)] + [152 * 4064 + 2, 153 * 4064 + 5, 200000]
    sizes = sorted(s for s in sizes if s > 3520)
    for n in sizes:
        cases.append(("HF:%d" % n, rng.choice(flavs), rng.choice(names)))
    for n in big:
        cases.append(("HF:%d" % n, rng.choice([0, 1, 5]), b"big"))
    # partition tables
    for _ in range(14 if ctx.tier == "quick" else 160):
        # odd blocks-per-cylinder geometries too: with an odd cylinder count a partition then has an odd number of blocks
        heads, sect = rng.choice([(1, 32), (2, 16), (4, 17), (16, 63), (5, 17), (3, 21), (1, 63), (7, 9)])
        cb = heads * sect
        np_ = rng.randint(1, 4)
        cur = 2
        parts = []
        for _ in range(np_):
            ln = rng.randint(max(2, 200 // cb + 1), max(3, 9000 // cb))
            parts.append((cur, ln))
            cur += ln + rng.choice([0, 0, 1])
        cyl = max(cur, 3521 // cb + 2)
        cases.append(("PART:%d:%d:%d:%s" % (cyl, heads, sect, ";".join("%d,%d" % p for p in parts)),
                      tuple(rng.choice(flavs) for _ in parts) if rng.random() < 0.8 else rng.choice(flavs), rng.choice(names[:5])))
    for (kind, flav, name) in cases:
        if kind.startswith("PART"):
            _, cyl, heads, sect, ps = kind.split(":")
            cb = int(heads) * int(sect)
            parts = [tuple(map(int, p.split(","))) for p in ps.split(";")]
            vols = [(cb * s, cb * l) for (s, l) in parts]
        else:
            first, n = hist.geometry(kind)
            vols = [(first, n)]
        L = gen.dev_create(kind, flav, name) + ["mountdev 0"]
        marks = []
        for vi, (first, n) in enumerate(vols):
            L += ["mount %d 0" % vi, "free", "list - 0 0", "list - 1 0", "umount"]
            marks.append(len(L) - 4)
        L += ["umountdev", "dump $W/img"]
        script = "\n".join(L) + "\n"
        rc, out, err, wd = common.run_script(ctx, script, timeout=300)
        res = common.parse_results(out)
        ctx.count((kind, flav, name))
        ctx.bump("geometry:" + kind.split(":")[0])
        inp = {"device": kind, "flavour_byte": flav, "name": hexs(name), "script": L}
        if rc != 0:
            ctx.fail("crash", "harness exit %d during format/mount" % rc, inp, actual=(out[-3:], err[-300:]))
            continue
        for vi, (first, n) in enumerate(vols):
            li = marks[vi]
            m = common.kv((res.get(li) or ["?"])[0])
            vname = name + bytes([49 + vi]) if kind.startswith("PART") else name
            vflav = flav[vi] if isinstance(flav, tuple) else flav
            exp_free, pages, exts = expected_free(n, vflav)
            if m[0] != "ok":
                ctx.fail("oracle", "freshly created volume cannot be mounted", inp, expected="ok", actual=res.get(li))
                continue
            d = m[1]
            got = (int(d["first"]), int(d["last"]), int(d["root"]), int(d["dostype"]))
            want = (first, first + n - 1, n // 2, vflav)
            if got != want:
                ctx.fail("oracle", "mounted volume has a different block range / root / flavour than requested", inp, expected=list(want), actual=list(got))
            if not kind.startswith("PART") and kind.startswith("HF") is False and d.get("name") != hexs(vname[:30]):
                ctx.fail("oracle", "volume name differs after mount", inp, expected=hexs(vname[:30]), actual=d.get("name"))
            fr = common.kv((res.get(li + 1) or ["?"])[0])[1].get("free")
            if fr is None or int(fr) != exp_free:
                ctx.fail("oracle", "free-block count of a fresh volume is not size - boot - root - bitmap - cache", inp, expected=exp_free, actual=fr)
            for k in (2, 3):
                lst = res.get(li + k) or ["?"]
                if not lst[-1].startswith("ok n=0"):
                    ctx.fail("oracle", "root directory of a fresh volume is not empty / cannot be listed (%s)" % ("cache" if k == 3 else "hash table"), inp, expected="ok n=0", actual=lst[-1])
            img = os.path.join(wd, "img")
            dec = hist.decode_image(ctx, img, first, n)
            if not dec["ok"]:
                ctx.fail("oracle", "image of a fresh volume is not well formed: %s" % hist.DECODE_CODES.get(dec["code"], ("", "?"))[1], inp, expected="decodes", actual=dec["raw"])
            else:
                if dec["free"] != exp_free or dec["bmpages"] != pages or dec["bmexts"] != exts or dec["tree"] or dec["flavour"] != vflav or dec["volname"] != hexs(vname[:30]):
                    ctx.fail("oracle", "decoded fresh volume differs from the request", inp,
                             expected={"free": exp_free, "pages": pages, "exts": exts, "name": hexs(vname[:30]), "flavour": vflav},
                             actual={k2: dec[k2] for k2 in ("free", "bmpages", "bmexts", "volname", "flavour")})
        try:
            os.unlink(os.path.join(wd, "img"))
        except OSError:
            pass
        if len(ctx.samples) < 3:
            ctx.sample({"device": kind, "flavour_byte": flav, "name": hexs(name)})
        if len(ctx.failures) > 8:
            break
    rule = ("DD/HD floppies x 8 flavour bytes; hardfile sizes around multiples of 4064 (+-3), odd and even, 3521.., around 25/26 bitmap pages "
            "(thorough: every size in [3521,12300] and windows up to 30 pages and >152 pages); RDB tables with 1..4 partitions of random geometry; volume names of "
            "length 0,1,29,30,31,40; distinct = (device, flavour, name)")
    return common.finish(ctx, proof, rule,
                         assumptions=["hardfiles need more than 3520 blocks (adfDevType classifies smaller non-floppy sizes as unknown)",
                                      "volume names of hardfiles are not recovered by adfMountHdFile (volName stays NULL): the name is checked in the decoded root block"],
                         extra_cov={"exhaustive": False})


def replay(ctx, rep):
    print(rep.get("failure"))
    return 0

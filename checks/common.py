"""Shared machinery of bin/check: builds, proof status, verdict logic, evidence, known findings."""
import hashlib, json, os, random, re, shutil, subprocess, sys, tempfile, time

VERIF = os.path.dirname(os.path.dirname(os.path.abspath(__file__)))
sys.path.insert(0, os.path.join(VERIF, "tools"))
import vbuild, vcoq  # noqa: E402

REPO = vbuild.REPO
WORK = os.path.join(VERIF, "work")
EVID = os.path.join(VERIF, "evidence")

TRUSTED_BASE = [
    "Coq 8.16.1 kernel (coqc, full .vo build; vm_compute used for finite table sweeps and witnesses; no native_compute)",
    "axioms: none expected - the Print Assumptions output of every property theorem is parsed on each run and listed under coverage.assumptions_reported",
    "tools/c2v.py (C subset -> Gallina translator) and clang 14's JSON AST dump; semantics of the subset in coq/CPrelude.v (unbounded signed arithmetic, mod 2^N unsigned, truncating signed division, total list indexing)",
    "extraction: ExtrOcamlBasic only (Extract Inductive for bool, option, unit, list, prod, sumbool, sumor as shipped with Coq; no Extract Constant); OCaml 4.13.1; ocaml/*.ml drivers (parsing, int<->Z conversion, printing)",
    "harness/adfh.c, harness/leafh.c (in-memory device, --wrap interception, pinned clock), gcc 12 / clang 14, generators and comparison code in checks/*.py",
]


def hexs(b):
    if isinstance(b, str):
        b = b.encode("latin-1")
    return b.hex() if b else "-"


class Ctx:
    def __init__(self, pid, tier, seed):
        self.pid = pid
        self.tier = tier
        self.seed = seed
        self.rng = random.Random((seed << 8) ^ int(pid[1:]))
        self.t0 = time.time()
        self.work = tempfile.mkdtemp(prefix="%s-" % pid, dir=ensure(WORK))
        self.failures = []        # dicts: kind ('oracle' | 'corr' | 'crash'), what, input, expected, actual
        self.evaluations = 0
        self.distinct = set()
        self.samples = []
        self.dist = {}
        self.notes = []
        self.hb = None
        self.coq = None
        self.known_lines = []

    def count(self, key, nontrivial=True):
        self.evaluations += 1
        if nontrivial:
            self.distinct.add(hashlib.sha1(repr(key).encode()).hexdigest()[:12])

    def bump(self, k, n=1):
        self.dist[k] = self.dist.get(k, 0) + n

    def sample(self, s, limit=6):
        if len(self.samples) < limit:
            self.samples.append(s)

    def fail(self, kind, what, inp, expected=None, actual=None, stream=None):
        self.failures.append({"kind": kind, "what": what, "input": inp, "expected": expected, "actual": actual, "stream": stream})

    def bin(self, name):
        return os.path.join(self.hb, name)

    def ocaml(self, name):
        return os.path.join(VERIF, "build", "ocaml", name)

    def cleanup(self):
        shutil.rmtree(self.work, ignore_errors=True)


def ensure(d):
    os.makedirs(d, exist_ok=True)
    return d


def big_stack():
    """extracted code recurses over long lists: lift the stack limit for the OCaml drivers"""
    import resource
    try:
        resource.setrlimit(resource.RLIMIT_STACK, (resource.RLIM_INFINITY, resource.RLIM_INFINITY))
    except Exception:
        try:
            soft, hard = resource.getrlimit(resource.RLIMIT_STACK)
            resource.setrlimit(resource.RLIMIT_STACK, (hard, hard))
        except Exception:
            pass


def pmap(fn, items, workers=None):
    """run independent harness cases on all cores; results come back in input order"""
    from concurrent.futures import ThreadPoolExecutor
    workers = workers or max(2, min(14, (os.cpu_count() or 2) - 2))
    items = list(items)
    with ThreadPoolExecutor(max_workers=workers) as ex:
        # chunked, so that a consumer that stops early (enough failures) does not leave hundreds of cases queued
        for i in range(0, len(items), 2 * workers):
            for r in list(ex.map(fn, items[i:i + 2 * workers])):
                yield r


def run_lines(binary, text, timeout=1200, env=None):
    r = subprocess.run([binary], input=text, preexec_fn=big_stack, stdout=subprocess.PIPE, stderr=subprocess.PIPE, text=True, timeout=timeout, env=env)
    return r.returncode, r.stdout, r.stderr


def run_script(ctx, script_text, variant="adfh", timeout=120, env=None, name=None):
    """run a harness script; returns (rc, list of output lines, stderr)"""
    d = tempfile.mkdtemp(prefix="s-", dir=ctx.work)
    sp = os.path.join(d, "script")
    with open(sp, "w") as f:
        f.write(script_text.replace("$W", d))
    e = dict(os.environ)
    e["ASAN_OPTIONS"] = "detect_leaks=0:abort_on_error=0:exitcode=99"
    # per-command watchdog of the harness: a call that has not returned after this many seconds is reported as
    # "crash sig=14" (no legitimate command takes more than a fraction of a second outside valgrind)
    e["ADFH_ALARM"] = "60" if variant.endswith("vg") else ("25" if variant.endswith("asan") else "12")
    if env:
        e.update(env)
    try:
        r = subprocess.run([ctx.bin(variant), sp, d], stdout=subprocess.PIPE, stderr=subprocess.PIPE, text=True, timeout=timeout, env=e, errors="replace")
        rc, out, err = r.returncode, r.stdout, r.stderr
    except subprocess.TimeoutExpired as ex:
        rc, out, err = 124, (ex.stdout or b"").decode("latin-1") if isinstance(ex.stdout, bytes) else (ex.stdout or ""), "timeout"
    return rc, out.splitlines(), err, d


def parse_results(lines):
    """harness output -> {lineno: [result strings]}"""
    res = {}
    for l in lines:
        m = re.match(r"^(\d+) (.*)$", l)
        if m:
            res.setdefault(int(m.group(1)), []).append(m.group(2))
    return res


def kv(s):
    """'ok a=1 b=2' -> ('ok', {'a':'1','b':'2'})"""
    parts = s.split()
    d = {}
    for p in parts[1:]:
        if "=" in p:
            k, v = p.split("=", 1)
            d[k] = v
    return parts[0] if parts else "", d


# ------------------------------------------------------------------ proof status

def theorem_names(pid):
    p = os.path.join(VERIF, "coq", "Props", "Properties_%s.v" % pid)
    if not os.path.exists(p):
        return []
    return re.findall(r"^\s*(?:Theorem|Example|Lemma)\s+(\w+)", open(p).read(), re.M)


def proof_status(ctx, extra_files=()):
    """A. all theorems of the property compile, no unexpected axiom, audit clean, translator complete"""
    st = ctx.coq
    pid = ctx.pid
    pf = "Props/Properties_%s.v" % pid
    names = theorem_names(pid)
    problems = []
    if st["stages"]["c2v"]["rc"] != 0:
        problems.append("translator crashed: " + st["stages"]["c2v"]["log"][-300:])
    if not st["vo"].get(pf):
        # which dependency broke?
        broken = [v for v, ok in st["vo"].items() if not ok]
        log = st["stages"]["make"]["log"]
        m = re.findall(r'File "\./([^"]+)", line (\d+)', log)
        problems.append("property file %s does not compile; broken files: %s; first errors: %s" % (pf, broken, m[:4]))
    ass = st.get("assumptions", {}).get(pf, {})
    if ass.get("axioms"):
        problems.append("unexpected axioms: %s" % ass["axioms"])
    if ass.get("error"):
        problems.append("Print Assumptions failed: %s" % ass["error"][-300:])
    if st.get("audit"):
        problems.append("audit: forbidden construct: %s" % st["audit"][:3])
    for f in extra_files:
        if not st["vo"].get(f):
            problems.append("%s does not compile" % f)
    discharged = len(names) if (st["vo"].get(pf) and not ass.get("axioms") and not ass.get("error")) else 0
    return {"file": pf, "theorems": names, "obligations": max(len(names), 1), "discharged": discharged,
            "problems": problems, "assumptions": ass}


def translator_failures(ctx, needed):
    """entries of the translator's job list this property depends on that failed"""
    failed = ctx.coq.get("c2v_failed", {})
    return {k: v for k, v in failed.items() if k in needed or k == "c2v"}


# ------------------------------------------------------------------ known findings

def load_findings(pid):
    p = os.path.join(VERIF, "KNOWN_FINDINGS")
    out = []
    if not os.path.exists(p):
        return out
    for line in open(p):
        line = line.strip()
        if not line.startswith("finding:"):
            continue
        m = re.match(r"finding:\s+property=(\w+)\s+id=(\S+)\s+when=(\S+)\s+replay=(\S+)\s+(.*)$", line)
        if m and m.group(1) == pid:
            out.append({"property": m.group(1), "id": m.group(2), "when": m.group(3), "replay": m.group(4), "text": m.group(5)})
    return out


# ------------------------------------------------------------------ verdict + evidence

def finish(ctx, proof, rule, level="proof", extra_cov=None, matches_finding=None, assumptions=None):
    """verdict logic of DESIGN.md section 2; prints VIOLATION / KNOWN-FINDING lines; writes evidence; returns exit code"""
    pid = ctx.pid
    # the level recorded in the evidence is the one MANIFEST.json claims for this property (single source: tools/mkmanifest.py)
    try:
        for c in json.load(open(os.path.join(VERIF, "MANIFEST.json")))["checks"]:
            if c["property_id"] == pid:
                level = c["level_claimed"]["category"]
    except Exception:
        pass
    findings = load_findings(pid)
    new_fail = []
    suppressed = 0
    for f in ctx.failures:
        hit = None
        if matches_finding:
            for kf in findings:
                try:
                    if matches_finding(kf, f):
                        hit = kf
                        break
                except Exception:
                    pass
        if hit:
            suppressed += 1
        else:
            new_fail.append(f)
    for l in ctx.known_lines:
        print(l)
    violations = 0
    rc = 0
    rdir = ensure(os.path.join(WORK, "replay"))
    concrete = [f for f in new_fail if f["kind"] in ("oracle", "crash")]
    if concrete:
        f = concrete[0]
        path = os.path.join(rdir, "%s-%s.json" % (pid, hashlib.sha1(json.dumps(f, sort_keys=True, default=str).encode()).hexdigest()[:10]))
        json.dump({"property": pid, "seed": ctx.seed, "tier": ctx.tier, "failure": f, "all_failures": new_fail[:20]}, open(path, "w"), indent=1, default=str)
        print("VIOLATION property=%s replay=%s" % (pid, path))
        violations = len(concrete)
        rc = 1
    elif proof["problems"] or new_fail:
        # proof obligation or correspondence broke and the search found no failing input
        path = os.path.join(rdir, "%s-nofail-%d.json" % (pid, int(time.time())))
        json.dump({"property": pid, "seed": ctx.seed, "tier": ctx.tier, "no_failing_input_found": True,
                   "broken_proof_obligations": proof["problems"], "theorems": proof["theorems"],
                   "broken_correspondence": [f for f in new_fail if f["kind"] == "corr"][:20]}, open(path, "w"), indent=1, default=str)
        print("VIOLATION property=%s replay=%s no-failing-input-found" % (pid, path))
        violations = 1
        rc = 1
    cov = {
        "obligations": proof["obligations"], "discharged": proof["discharged"],
        "checker_cmd": "python3 tools/vcoq.py  (= tools/c2v.py; coq_makefile -f _CoqProject -o Makefile; make -k -j16; coqc -Q . ADF Props/Properties_%s.v for Print Assumptions)" % pid,
        "trusted_base": TRUSTED_BASE,
        "theorems": proof["theorems"],
        "assumptions_reported": proof["assumptions"],
        "proof_problems": proof["problems"],
        "evaluations": ctx.evaluations, "distinct_nontrivial": len(ctx.distinct), "rule": rule,
        "samples": ctx.samples or ["(no samples)"],
        "input_distribution": ctx.dist,
        "known_findings_printed": ctx.known_lines,
        "failures_suppressed_by_known_findings": suppressed,
        "translator_ok": ctx.coq.get("c2v_ok", []), "translator_failed": ctx.coq.get("c2v_failed", {}),
        "notes": ctx.notes,
    }
    if extra_cov:
        cov.update(extra_cov)
    if cov["discharged"] < 1:
        # the schema wants discharged >= 1 for the proof keys; a run whose proofs broke reports the counts under other names
        cov["obligations_total"] = cov.pop("obligations")
        cov["discharged_count"] = cov.pop("discharged")
    cov["evaluations"] = max(cov["evaluations"], 1)
    ev = {"property_id": pid, "tier": ctx.tier, "seed": ctx.seed, "level": level, "coverage": cov,
          "assumptions": assumptions or [], "wall_s": round(time.time() - ctx.t0, 2), "violations": violations}
    ensure(EVID)
    json.dump(ev, open(os.path.join(EVID, "%s.json" % pid), "w"), indent=1, default=str)
    ctx.cleanup()
    return rc


def prepare(ctx, variants=("plain",)):
    hb, key, t = vbuild.build_all(tuple(variants))
    ctx.hb = hb
    ctx.coq = vcoq.build()
    for b in ("leafm", "adfm"):
        if not os.path.exists(os.path.join(VERIF, "build", "ocaml", b)):
            st = ctx.coq.get("stages", {})
            raise RuntimeError("extracted model driver %s could not be built: %s" % (
                b, json.dumps({k: v["log"][-600:] for k, v in st.items() if v.get("rc")})))
    return ctx

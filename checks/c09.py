"""C09 Memory safety and allocation hygiene for every valid API history.
Valid histories (file, namespace, directory-cache, exhaustion generators of C01/C02/C07/C08; all flavours; floppy,
hardfile, partitioned disk; including failing calls and volume-full episodes) run (a) in the AddressSanitizer+bounds build
with LeakSanitizer at exit, (b) with the wrapped-malloc ledger of the harness: after closing all handles, unmounting and
closing the device no allocation made by the library may remain and nothing may be freed twice, (c) a few under valgrind
memcheck (branches on uninitialised memory)."""
import os, shutil, subprocess
from . import common, gen, hist, c01, c02, c03, c07, c08
from .common import hexs

VARIANTS = ("plain", "asan", "vg")


def strip(L):
    return [l for l in L if not l.startswith("dump") and l != "spectree" and not l.startswith("nospace")]


def geometry_history(ctx):
    """hardfiles whose size sits on / next to a bitmap-page boundary (one page maps 127*32 = 4064 blocks; the root block holds
    25 page pointers, each extension block 127 more): the in-memory tables are sized from the block count, so the last block
    of the volume is the one an off-by-one would put outside them"""
    rng = ctx.rng
    flav = rng.choice(gen.FLAVOURS)
    k = rng.choice([1, 1, 2, 3] if ctx.tier == "quick" else [1, 2, 3, 5, 25, 26])
    n = 4064 * k + 2 + rng.choice([-1, 0, 1, 1, 2])
    L = gen.dev_create("HF:%d" % n, flav) + ["mountdev 0", "mount 0 0", "free"]
    for b in (n - 1, n - 2, n - 3, 4064 * k + 1, 4064 * k + 2):
        if 2 <= b < n and b != n // 2:
            L += ["isfree %d" % b, "setused %d" % b, "isfree %d" % b, "setfree %d" % b]
    L += ["open 0 - %s w" % hexs(b"f"), "write 0 3 %d" % rng.choice([100, 5000, 40000]), "close 0", "mkdir - %s" % hexs(b"d"), "updbitmap", "free",
          "umount", "umountdev", "mountdev 0", "mount 0 0", "free", "isfree %d" % (n - 1), "open 0 - %s r" % hexs(b"f"), "read 0 100", "close 0",
          "rm - %s" % hexs(b"f"), "free", "umount", "umountdev"]
    return L, 0, n, {"flavour": flav, "blocks": n, "pages": (n - 2 + 4063) // 4064}


def salvage_history(ctx):
    """the salvage API (adfGetDelEnt / adfFreeDelList / adfUndelEntry): no deleted entry at all, several, the highest block of the
    volume being a deleted header (blocks up to it are taken first), deleted entries in a sub-directory (undelete with a non-root
    parent), entries undeleted again"""
    rng = ctx.rng
    flav = rng.choice(gen.FLAVOURS)
    bs = 512 if flav & 1 else 488
    L = gen.dev_create("DD", flav) + ["mountdev 0", "mount 0 0", "dellist"]
    sub = hexs(b"sub")
    L += ["mkdir - %s" % sub, "open 0 - %s w" % hexs(b"keep"), "write 0 3 %d" % (3 * bs), "close 0"]
    kind = rng.choice(["none", "some", "last-block", "last-block", "subdir"])
    if kind == "last-block":
        # take every block up to the last one, so that the next header lands on block 1759; then two more entries (they wrap to block 2)
        L += ["free"]
        L.append("TAKE")
        L += ["mkdir - %s" % hexs(b"lastdir"), "open 0 - %s w" % hexs(b"wrapped"), "close 0", "mkdir - %s" % hexs(b"wrapped2")]
        L += ["lookup - %s" % hexs(b"lastdir"), "rm - %s" % hexs(b"lastdir"), "rm - %s" % hexs(b"wrapped"), "rm - %s" % hexs(b"wrapped2")]
    elif kind == "some":
        for i in range(rng.randint(1, 4)):
            nm = hexs(b"gone%d" % i)
            L += ["open 0 - %s w" % nm, "write 0 4 %d" % rng.choice([0, 10, 2 * bs]), "close 0"] if rng.random() < 0.6 else ["mkdir - %s" % nm]
        for i in range(4):
            L += ["lookup - %s" % hexs(b"gone%d" % i), "rm - %s" % hexs(b"gone%d" % i)]
    elif kind == "subdir":
        nm = hexs(b"inner")
        L += ["open 0 %s %s w" % (sub, nm), "write 0 4 %d" % bs, "close 0", "mkdir %s %s" % (sub, hexs(b"innerdir")),
              "lookup %s %s" % (sub, nm), "rm %s %s" % (sub, nm), "dellist", "undel %s L %s" % (sub, nm),
              "lookup %s %s" % (sub, hexs(b"innerdir")), "rm %s %s" % (sub, hexs(b"innerdir")), "undel %s L %s" % (sub, hexs(b"innerdir"))]
    L += ["dellist", "dellist"]
    if kind in ("some", "last-block") and rng.random() < 0.6:
        L += ["undel - L %s" % hexs(b"gone0" if kind == "some" else b"lastdir"), "dellist"]
    L += ["umount", "umountdev"]
    return L, 0, 1760, {"flavour": flav, "kind": kind, "blocks": 1760}


def expand_take(ctx, L):
    """'TAKE' -> an allocation of every free block but the last one of the volume (asked from the library first)"""
    if "TAKE" not in L:
        return L
    i = L.index("TAKE")
    rc, out, err, wd = common.run_script(ctx, "\n".join(L[:i] + ["umount", "umountdev"]) + "\n")
    res = common.parse_results(out)
    free = int(common.kv((res.get(i) or ["err free=0"])[-1])[1].get("free", 0))
    # the allocator hands out blocks upwards from the root and wraps: blocks 2..879 (878 of them) are all free at this point, the rest
    # of the free blocks lie between the entries made so far and block 1759; all of those but the last are taken
    return L[:i] + ["alloc %d" % max(1, free - 879)] + L[i + 1:]


def table_edge_history(ctx):
    """directed: a file whose length sits at a table edge (72 / 73 / 144 / 145 blocks) is reopened and then - without any seek - read or
    overwritten sequentially across the edge and extended (the buffers the append continues from are the ones the sequential walk left
    behind); every flavour, OFS in particular (it walks the nextData chain)"""
    rng = ctx.rng
    flav = rng.choice([0, 0, 2, 4, 1, 5])
    bs = 512 if flav & 1 else 488
    k = rng.choice([72, 73, 73, 74, 144, 145, 146])
    nm = hexs(b"edgefile")
    L = gen.dev_create("DD", flav) + ["mountdev 0", "mount 0 0", "open 0 - %s w" % nm, "write 0 11 %d" % (k * bs - rng.choice([0, 0, 1, 200])), "close 0"]
    how = rng.choice(["overwrite-extend", "overwrite-extend", "read-append", "read-write", "chunks"])
    if how == "overwrite-extend":
        L += ["open 0 - %s %s" % (nm, rng.choice(["w", "rw"])), "write 0 12 %d" % (k * bs + rng.choice([1, 500, bs, 3 * bs])), "close 0"]
    elif how == "read-append":
        L += ["open 0 - %s rw" % nm, "read 0 %d" % (k * bs + 10), "write 0 13 %d" % rng.choice([1, bs, 2 * bs + 1]), "close 0"]
    elif how == "read-write":
        L += ["open 0 - %s rw" % nm, "read 0 %d" % ((k - 1) * bs), "write 0 14 %d" % (3 * bs), "read 0 10", "write 0 15 %d" % bs, "close 0"]
    else:
        L += ["open 0 - %s rw" % nm] + ["write 0 %d %d" % (20 + i, bs) for i in range(k + 3)] + ["close 0"]
    L += ["open 0 - %s r" % nm, "read 0 %d" % ((k + 5) * bs), "close 0", "umount", "umountdev"]
    return L, 0, 1760, {"flavour": flav, "blocks_of_file": k, "how": how, "blocks": 1760}


def run(ctx):
    proof = common.proof_status(ctx)
    rng = ctx.rng
    gens = []
    for i in range(10 if ctx.tier == "quick" else 120):
        gens.append(("table-edge-sequential", table_edge_history))
    for i in range(14 if ctx.tier == "quick" else 200):
        gens.append(("salvage-history", lambda c: (lambda r: (expand_take(c, r[0]), r[1], r[2], r[3]))(salvage_history(c))))
    for i in range(6 if ctx.tier == "quick" else 120):
        gens.append(("bitmap-page-boundary-geometry", geometry_history))
    b1 = c01.builders(ctx)
    for i in range(60 if ctx.tier == "quick" else 900):
        gens.append(("file-history", b1[i % len(b1)][1]))
    for i in range(12 if ctx.tier == "quick" else 150):
        gens.append(("namespace-history", c02.ns_history))
    for i in range(12 if ctx.tier == "quick" else 150):
        gens.append(("cache-history", c07.cache_history))
    for i in range(10 if ctx.tier == "quick" else 80):
        gens.append(("forced-exhaustion", c08.forced_history))
    for i in range(2 if ctx.tier == "quick" else 30):
        gens.append(("real-exhaustion", c08.exhaustion_history))
    for i in range(3 if ctx.tier == "quick" else 40):
        gens.append(("rdb-partition", c03.part_history))
    # single-file handle histories aimed at block / 72-block / extension-block edges (the generator of the call-level correspondence)
    from . import fileiocorr
    for i in range(30 if ctx.tier == "quick" else 400):
        gens.append(("handle-history", fileiocorr.valid_history))
    vg_budget = {}      # per generator, so that every kind of history gets its share of memcheck runs
    vg_each = 4 if ctx.tier == "quick" else 40
    have_vg = shutil.which("valgrind") is not None
    jobs = []
    for gi, (label, fn) in enumerate(gens):
        L, first, nb, meta = fn(ctx)
        L = strip(L)
        # make sure the history ends with everything released
        if L[-1] != "umountdev":
            L += ["umount", "umountdev"]
        L += ["ledger"]
        use_vg = False
        if have_vg and vg_budget.get(label, 0) < vg_each and len(L) < 160 and meta.get("blocks", 0) < 5000:
            vg_budget[label] = vg_budget.get(label, 0) + 1
            use_vg = True
        jobs.append((gi, label, L, meta, use_vg))

    def one(job):
        gi, label, L, meta, use_vg = job
        script = "\n".join(L) + "\n"
        rc, out, err, wd = common.run_script(ctx, script, variant="adfh-asan", timeout=600,
                                             env={"ASAN_OPTIONS": "detect_leaks=1:abort_on_error=0:exitcode=99", "LSAN_OPTIONS": "exitcode=98"})
        rc2, out2, err2, wd2 = common.run_script(ctx, script, variant="adfh", timeout=600)
        shutil.rmtree(wd, ignore_errors=True)
        shutil.rmtree(wd2, ignore_errors=True)
        vg = None
        if use_vg:
            d_ = os.path.join(ctx.work, "vg%d" % gi)
            os.makedirs(d_, exist_ok=True)
            sp = os.path.join(d_, "script")
            open(sp, "w").write(script.replace("$W", d_))
            r = subprocess.run(["valgrind", "-q", "--error-exitcode=97", "--track-origins=no", "--leak-check=no", ctx.bin("adfh-vg"), sp, d_],
                               stdout=subprocess.PIPE, stderr=subprocess.PIPE, text=True, timeout=1200)
            vg = (r.returncode, r.stderr)
            shutil.rmtree(d_, ignore_errors=True)
        return (rc, out, err, rc2, out2, vg)
    for (gi, label, L, meta, use_vg), (rc, out, err, rc2, out2, vg) in zip(jobs, common.pmap(one, jobs)):
        ctx.count((label, hash(tuple(L))))
        ctx.bump("asan:" + label)
        inp = {"generator": label, "meta": meta, "script": L}
        if rc != 0:
            what = [l for l in err.splitlines() if "ERROR" in l or "SUMMARY" in l][:3]
            ctx.fail("crash", "sanitizer report or crash on a valid history (exit %d)" % rc, inp, expected="clean run", actual={"last_output": out[-2:], "sanitizer": what})
        # ledger (plain build: the ASan build has its own allocator bookkeeping but the wrappers still run)
        led = [l for l in out2 if " ok live=" in l]
        if rc2 != 0:
            ctx.fail("crash", "crash on a valid history (exit %d)" % rc2, inp, actual=out2[-2:])
        elif led:
            d = common.kv(led[-1].split(" ", 1)[1])[1]
            if int(d["live"]) != 0 or int(d["dfree"]) != 0:
                ctx.fail("oracle", "allocation ledger not empty after close/unmount/closedev: %s live allocation(s), %s free(s) of memory not owned" % (d["live"], d["dfree"]), inp,
                         expected="live=0 dfree=0", actual=led[-1])
        if vg is not None:
            ctx.bump("valgrind:" + label)
            if vg[0] == 97:
                first_err = [l for l in vg[1].splitlines() if "uninitialised" in l or "Invalid" in l or " at 0x" in l or " by 0x" in l][:5]
                ctx.fail("crash", "valgrind memcheck error on a valid history (use of uninitialised memory / invalid access)", inp, expected="no error", actual=first_err)
        if len(ctx.samples) < 3:
            ctx.sample({"generator": label, "meta": meta, "lines": len(L)})
        if len(ctx.failures) > 5:
            break
    rule = ("hardfiles of 4064k+2+{-1,0,1,2} blocks (last block of the volume = first/last bit of a bitmap page) with the last blocks queried, set and freed; valid histories from the file / namespace / directory-cache / exhaustion / partition generators (all flavours, incl. failing calls) under ASan(address,bounds)+LSan, "
            "the malloc ledger after close+unmount+closedev, and valgrind memcheck on a few of each kind (the harness prints every field of every result the API returns, so a field left "
            "uninitialised by the library is a memcheck error too); distinct = distinct script")
    return common.finish(ctx, proof, rule, level="exploration",
                         assumptions=["names of 1..30 bytes without '/' or ':', one writer per file (documented envelope)",
                                      "UBSan 'shift' reports of Long() (promoted uint16 shifted into the sign bit) are not part of the property: address,bounds only"])


def replay(ctx, rep):
    print(rep.get("failure"))
    return 0

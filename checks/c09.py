"""C09 Memory safety and allocation hygiene for every valid API history.
Valid histories (file, namespace, directory-cache, exhaustion generators of C01/C02/C07/C08; all flavours; floppy,
hardfile, partitioned disk; including failing calls and volume-full episodes) run (a) in the AddressSanitizer+bounds build
with LeakSanitizer at exit, (b) with the wrapped-malloc ledger of the harness: after closing all handles, unmounting and
closing the device no allocation made by the library may remain and nothing may be freed twice, (c) a few under valgrind
memcheck (branches on uninitialised memory)."""
import os, shutil, subprocess
from . import common, gen, hist, c01, c02, c03, c07, c08
from .common import hexs

VARIANTS = ("plain", "asan", "vg")


def strip(L):
    return [l for l in L if not l.startswith("dump") and l != "spectree" and not l.startswith("nospace")]


def run(ctx):
    proof = common.proof_status(ctx)
    rng = ctx.rng
    gens = []
    b1 = c01.builders(ctx)
    for i in range(10 if ctx.tier == "quick" else 200):
        gens.append(("file-history", b1[i % len(b1)][1]))
    for i in range(6 if ctx.tier == "quick" else 150):
        gens.append(("namespace-history", c02.ns_history))
    for i in range(6 if ctx.tier == "quick" else 150):
        gens.append(("cache-history", c07.cache_history))
    for i in range(4 if ctx.tier == "quick" else 80):
        gens.append(("forced-exhaustion", c08.forced_history))
    for i in range(2 if ctx.tier == "quick" else 30):
        gens.append(("real-exhaustion", c08.exhaustion_history))
    for i in range(3 if ctx.tier == "quick" else 40):
        gens.append(("rdb-partition", c03.part_history))
    vg_budget = 3 if ctx.tier == "quick" else 40
    have_vg = shutil.which("valgrind") is not None
    for gi, (label, fn) in enumerate(gens):
        L, first, nb, meta = fn(ctx)
        L = strip(L)
        # make sure the history ends with everything released
        if L[-1] != "umountdev":
            L += ["umount", "umountdev"]
        L += ["ledger"]
        script = "\n".join(L) + "\n"
        rc, out, err, wd = common.run_script(ctx, script, variant="adfh-asan", timeout=600,
                                             env={"ASAN_OPTIONS": "detect_leaks=1:abort_on_error=0:exitcode=99", "LSAN_OPTIONS": "exitcode=98"})
        ctx.count((label, hash(tuple(L))))
        ctx.bump("asan:" + label)
        inp = {"generator": label, "meta": meta, "script": L}
        if rc != 0:
            what = [l for l in err.splitlines() if "ERROR" in l or "SUMMARY" in l][:3]
            ctx.fail("crash", "sanitizer report or crash on a valid history (exit %d)" % rc, inp, expected="clean run", actual={"last_output": out[-2:], "sanitizer": what})
        # ledger (plain build: the ASan build has its own allocator bookkeeping but the wrappers still run)
        rc2, out2, err2, wd2 = common.run_script(ctx, script, variant="adfh", timeout=600)
        led = [l for l in out2 if " ok live=" in l]
        if rc2 != 0:
            ctx.fail("crash", "crash on a valid history (exit %d)" % rc2, inp, actual=out2[-2:])
        elif led:
            d = common.kv(led[-1].split(" ", 1)[1])[1]
            if int(d["live"]) != 0 or int(d["dfree"]) != 0:
                ctx.fail("oracle", "allocation ledger not empty after close/unmount/closedev: %s live allocation(s), %s free(s) of memory not owned" % (d["live"], d["dfree"]), inp,
                         expected="live=0 dfree=0", actual=led[-1])
        if have_vg and vg_budget > 0 and label in ("file-history", "namespace-history", "cache-history", "forced-exhaustion") and len(L) < 120:
            vg_budget -= 1
            d_ = os.path.join(ctx.work, "vg%d" % gi)
            os.makedirs(d_, exist_ok=True)
            sp = os.path.join(d_, "script")
            open(sp, "w").write(script.replace("$W", d_))
            r = subprocess.run(["valgrind", "-q", "--error-exitcode=97", "--track-origins=no", "--leak-check=no", ctx.bin("adfh-vg"), sp, d_],
                               stdout=subprocess.PIPE, stderr=subprocess.PIPE, text=True, timeout=1200)
            ctx.bump("valgrind:" + label)
            if r.returncode == 97:
                first_err = [l for l in r.stderr.splitlines() if "uninitialised" in l or "Invalid" in l or " at 0x" in l or " by 0x" in l][:5]
                ctx.fail("crash", "valgrind memcheck error on a valid history (use of uninitialised memory / invalid access)", inp, expected="no error", actual=first_err)
        if len(ctx.samples) < 3:
            ctx.sample({"generator": label, "meta": meta, "lines": len(L)})
        if len(ctx.failures) > 5:
            break
    rule = ("valid histories from the file / namespace / directory-cache / exhaustion / partition generators (all flavours, incl. failing calls) under ASan(address,bounds)+LSan, "
            "the malloc ledger after close+unmount+closedev, and valgrind memcheck on a few; distinct = distinct script")
    return common.finish(ctx, proof, rule, level="exploration",
                         assumptions=["names of 1..30 bytes without '/' or ':', one writer per file (documented envelope)",
                                      "UBSan 'shift' reports of Long() (promoted uint16 shifted into the sign bit) are not part of the property: address,bounds only"])


def replay(ctx, rep):
    print(rep.get("failure"))
    return 0

"""C13 Volume containment.
(a) proofs: guard characterisation, any-program containment, partition disjointness, funnel (Props/Properties_C13.v)
(b) guard level: compiled adfReadBlock/adfWriteBlock vs the regenerated guard on boundary/random arguments, and the
    containment oracle on the C results (search for a failing input when a proof breaks)
(c) system level: partitioned disks, histories on each partition, every device access (reads and writes) must lie in the
    partition's range as computed by the proved formula from the partition table
(d) images whose block pointers are out of range."""
import os
from . import common, gen
from .common import hexs

NEEDED = ["adfReadBlock", "adfWriteBlock", "adfCreateVol.range", "adfMountHd.range", "funnel"]


def guard_cases(ctx):
    rng = ctx.rng
    cases = []
    vols = [(0, 1759), (0, 3519), (64, 2943), (2944, 6143), (1056, 4223), (0, 0), (5, 5), (2 ** 31 - 2000, 2 ** 31 - 1), (1, 2 ** 31 - 1)]
    for _ in range(20):
        f = rng.randrange(0, 2 ** 31 - 10)
        vols.append((f, rng.randrange(f, min(2 ** 31 - 1, f + rng.choice([0, 1, 100, 10 ** 6, 2 ** 30])) + 1)))
    for (f, l) in vols:
        size = l - f + 1
        ns = {0, 1, 2, size - 1, size, size + 1, l, l + 1, max(0, l - f), 2 ** 32 - 1, 2 ** 32 - f, (2 ** 32 - f) % 2 ** 32, (2 ** 32 - f + 1) % 2 ** 32,
              (2 ** 32 - f - 1) % 2 ** 32, 2 ** 31, 2 ** 31 - 1, f, max(0, f - 1), f + 1}
        for _ in range(6 if ctx.tier == "quick" else 60):
            ns.add(rng.randrange(0, 2 ** 32))
            ns.add(rng.randrange(0, size + 3))
        for n in sorted(x for x in ns if 0 <= x < 2 ** 32):
            for mounted in (1, 0):
                cases.append("adfReadBlock %d %d %d %d" % (n, f, l, mounted))
                for ro in (0, 1):
                    cases.append("adfWriteBlock %d %d %d %d %d" % (n, f, l, mounted, ro))
    return cases


def spec_guard(fn, n, f, l, mounted, ro):
    """the proved characterisation (C13_guard_read / C13_guard_write)"""
    if mounted == 0:
        return "ret -1"
    if fn == "adfWriteBlock" and ro != 0:
        return "ret -1"
    if n + f <= l:
        return "dev %d 512" % (n + f)
    return "ret 1"


def run(ctx):
    proof = common.proof_status(ctx)
    tf = common.translator_failures(ctx, NEEDED)
    if tf:
        proof["problems"].append("translator could not translate: %s" % tf)
    # (b) guard level
    cases = guard_cases(ctx)
    text = "\n".join(cases) + "\n"
    rc, cout, _ = common.run_lines(ctx.bin("leafh"), text)
    cres = cout.splitlines()
    if os.path.exists(ctx.ocaml("leafm")):
        rc2, mout, _ = common.run_lines(ctx.ocaml("leafm"), text)
        for a, b in zip(cres, mout.splitlines()):
            if a != b:
                ctx.fail("corr", "generated guard and compiled C disagree", a.split(" = ")[0], expected=b, actual=a, stream="guard")
                break
    for l in cres:
        lhs, _, rhs = l.partition(" = ")
        t = lhs.split()
        fn = t[0]
        n, f, la, mounted = map(int, t[1:5])
        ro = int(t[5]) if len(t) > 5 else 0
        ctx.count(lhs)
        ctx.bump("guard:" + fn)
        if rhs.startswith("dev"):
            ps = int(rhs.split()[1])
            if not (f <= ps <= la) or (fn == "adfWriteBlock" and ro != 0) or mounted == 0:
                ctx.fail("oracle", "%s passed an access outside the volume (or on an unmounted/read-only volume) to the device" % fn,
                         {"call": lhs, "volume": [f, la]}, expected="refusal, or a sector in [%d,%d]" % (f, la), actual=rhs)
        exp = spec_guard(fn, n, f, la, mounted, ro)
        if rhs != exp and not any(x["kind"] == "oracle" for x in ctx.failures):
            # an in-range access that is refused (or a different rc) does not break containment; it breaks the proved
            # characterisation -> correspondence failure only
            ctx.fail("corr", "guard differs from its proved characterisation", lhs, expected=exp, actual=rhs, stream="guard-spec")
    ctx.sample(cres[7] if len(cres) > 7 else "")
    # (c) partitioned disks
    rng = ctx.rng
    ndisks = 3 if ctx.tier == "quick" else 25
    for di in range(ndisks):
        heads = rng.choice([1, 2, 4])
        sect = rng.choice([8, 11, 16])
        npart = rng.randint(1, 4)
        cb = heads * sect
        # each partition needs > 3520 blocks?  no: only hardfiles; RDB partitions can be small but must hold root+bitmap
        mincyl = max(2, (120 + cb - 1) // cb)
        parts = []
        cur = 2 + rng.choice([0, 0, 1, 3])
        for _ in range(npart):
            ln = rng.randint(mincyl, mincyl + 200 // cb + 30)
            parts.append((cur, ln))
            cur += ln + rng.choice([0, 0, 2])
        cyl = cur + rng.choice([0, 1])
        cyl = max(cyl, 3521 // cb + 2)      # adfDevType: anything up to 3520 blocks that is not a floppy is "unknown"
        flav = rng.choice(gen.FLAVOURS[:4])
        kind = "PART:%d:%d:%d:%s" % (cyl, heads, sect, ";".join("%d,%d" % p for p in parts))
        L = gen.dev_create(kind, flav) + ["mountdev 0"]
        marks = []
        for pi in range(npart):
            h = gen.Hist(rng, flav, dirs=True)
            L += ["wlog $W/log%d reads" % pi, "mount %d 0" % pi]
            for _ in range(25 if ctx.tier == "quick" else 80):
                L += h.step()
            L += h.close_all() + ["list - 0 1", "free", "umount", "wlog off"]
        L += ["umountdev"]
        rc, out, err, wd = common.run_script(ctx, "\n".join(L) + "\n")
        res = common.parse_results(out)
        key = ("disk", kind, flav)
        ctx.count(key)
        ctx.bump("partitioned_disk")
        ctx.bump("partitions", npart)
        if rc != 0:
            ctx.fail("crash", "harness exit %d on a partitioned-disk history" % rc, {"script": L}, actual=(out[-3:], err[-300:]))
            continue
        # mount-reported ranges must equal the proved formula
        md = None
        for ln_, rs in res.items():
            for r in rs:
                if r.startswith("ok type=") and "nvol=" in r:
                    md = common.kv(r)[1]
        if md is None:
            ctx.fail("oracle", "partitioned disk created by the library cannot be mounted again", {"script": L}, actual=out[:8])
            continue
        for pi, (st, ln) in enumerate(parts):
            exp = (cb * st, cb * (st + ln) - 1)
            got = tuple(map(int, md.get("v%d" % pi, "0:0:0").split(":")[:2]))
            if got != exp:
                ctx.fail("oracle", "partition %d mounted with a block range different from its cylinder range" % pi,
                         {"script": L, "partition": [st, ln], "cylBlocks": cb}, expected=list(exp), actual=list(got))
            lp = os.path.join(wd, "log%d" % pi)
            if os.path.exists(lp):
                for line in open(lp):
                    t = line.split()
                    if t and t[0] in ("R", "W"):
                        s = int(t[1])
                        ctx.evaluations += 1
                        if not (exp[0] <= s <= exp[1]):
                            ctx.fail("oracle", "device %s at block %d while working on partition %d [%d,%d]" % ("write" if t[0] == "W" else "read", s, pi, exp[0], exp[1]),
                                     {"script": L, "partition_index": pi}, expected="block in [%d,%d]" % exp, actual=s)
                            break
        if di == 0:
            ctx.sample({"disk": kind, "flavour": flav, "ops": len(L)})
    # (d) out-of-range pointers on a 2-partition disk: redirect pointers of a file's header / extension block past the partition
    #     (or, as a negative number, in front of it), then run operations that write those blocks back
    TARGETS = [800, 807, 800 + 63, 801, 1599, 2 ** 31 - 1, 2 ** 32 - 5, 2 ** 32 - 1, 2 ** 32 - 64, 2 ** 32 - 63, 2 ** 32 - 30]
    # data pointers: the slots the operations below really read through (firstData for block 0, dataBlocks[] slot k for a seek into
    # block k or a transfer that crosses into it; slot 0 of a table is never read by a seek to position 0)
    BIGF = [("ext.ownkey", 73, 4), ("ext.parent", 73, 512 - 12), ("ext.next", 73, 512 - 8), ("ext.data0", 73, 24 + 71 * 4), ("hdr.extension", 0, 512 - 8), ("hdrkey", 0, 4),
            ("ext.data1", 73, 24 + 70 * 4), ("ext.data3", 73, 24 + 68 * 4), ("hdr.first", 0, 16), ("hdr.data1", 0, 24 + 70 * 4)]
    SMALLF = [("hdrkey", 0, 4), ("data0", 0, 24 + 71 * 4), ("ext", 0, 512 - 8), ("parent", 0, 512 - 12), ("first", 0, 16), ("data1", 0, 24 + 70 * 4), ("data2", 0, 24 + 69 * 4)]
    combos = [(True, f, t, "part") for f in BIGF for t in TARGETS] + [(False, f, t, "part") for f in SMALLF for t in TARGETS]
    # the same on a floppy (the volume is the whole device): one block past the end, and far beyond
    FTARGETS = [1760, 1761, 3519, 2 ** 31 - 1, 2 ** 32 - 1]
    combos += [(True, f, t, "flop") for f in BIGF for t in FTARGETS] + [(False, f, t, "flop") for f in SMALLF for t in FTARGETS]
    combos_base = combos
    combos = combos * 2          # every combination on OFS and on FFS
    for case, (big, f0, target, devk) in enumerate(combos):
        flav = (case // len(combos_base)) % 2
        bs = 512 if flav & 1 else 488
        if devk == "part":
            first0, size0 = 64, 800
            mk, geo = gen.dev_create("PART:120:2:16:2,25;27,25", flav), "120 2 16"
        else:
            first0, size0 = 0, 1760
            mk, geo = gen.dev_create("DD", flav), "80 2 11"
        L = mk + ["mountdev 0", "mount 0 0",
             "open 0 - %s w" % hexs("victim"), "write 0 5 %d" % (80 * bs if big else 3000), "close 0", "umount", "umountdev"]
        # header of the first file on an empty volume: root+2 (bitmap at root+1), root = size/2; its blocks follow one by one:
        # 72 data blocks, then the extension block, then its data blocks.  Targets: just past the partition, inside the next one,
        # far away, and (as negative numbers) in front of the partition / in the partition-table area
        hdr = size0 // 2 + 2
        field = (f0[0], hdr + f0[1], f0[2])
        if big:
            ops = ["open 0 - %s rw" % hexs("victim"), "read 0 %d" % (bs + 10), "seek 0 %d" % (75 * bs), "write 0 9 %d" % (6 * bs), "flush 0", "seek 0 %d" % (73 * bs), "read 0 100",
                   "seek 0 %d" % (72 * bs + 5), "read 0 10", "trunc 0 %d" % (74 * bs), "close 0", "rm - %s" % hexs("victim")]
        else:
            ops = ["open 0 - %s rw" % hexs("victim"), "seek 0 100", "write 0 9 700", "flush 0", "read 0 100", "seek 0 %d" % (2 * bs + 7), "read 0 10",
                   "seek 0 %d" % (bs + 7), "read 0 10", "seek 0 0", "read 0 %d" % (3 * bs), "close 0", "rm - %s" % hexs("victim")]
        L2 = ["loaddev mem $W/img %s" % geo, "mountdev 0", "wlog $W/log reads", "mount 0 0"] + ops + ["umount", "wlog off", "umountdev"]
        script = "\n".join(L + ["dump $W/img0", "loaddev mem $W/img0 %s" % geo,
                                "poke32 %d %d %d fixsum 20" % (first0 + field[1], field[2], target), "dump $W/img"] + L2) + "\n"
        rc, out, err, wd = common.run_script(ctx, script)
        res_ = common.parse_results(out)
        # the set-up part must work (a device the library cannot mount would make every case vacuous)
        setup_ok = all((res_.get(i) or ["?"])[-1].startswith("ok") for i in range(1, len(L) + 1))
        if not setup_ok:
            ctx.fail("corr", "set-up of an out-of-range pointer case failed: the case is vacuous", {"script": script}, actual=[(res_.get(i) or ["?"])[-1] for i in range(1, len(L) + 1)])
            break
        ctx.count(("ptr", flav, target, field, big))
        ctx.bump("out_of_range_pointer")
        lp = os.path.join(wd, "log")
        if os.path.exists(lp):
            for line in open(lp):
                t = line.split()
                if t and t[0] in ("R", "W"):
                    s = int(t[1])
                    if not (first0 <= s <= first0 + size0 - 1):
                        ctx.fail("oracle", "device %s at block %d outside the volume [%d,%d] after a pointer was redirected out of range" % (
                            "write" if t[0] == "W" else "read", s, first0, first0 + size0 - 1),
                            {"script": script, "field": field[0], "value": target}, expected="block inside the partition", actual=s)
                        break
        if rc not in (0, 3):
            ctx.fail("crash", "harness exit %d with an out-of-range pointer" % rc, {"script": script}, actual=(out[-3:], err[-300:]))
    rule = ("guard calls on boundary and random (nSect, first, last, mounted, readOnly); partitioned disks with 1..4 partitions of random geometry with a "
            "random history per partition (every logged device read/write checked against the partition's proved block range); images with a redirected "
            "out-of-range pointer; distinct = distinct guard call / disk geometry+flavour / (field,value) pair; all are non-trivial")
    return common.finish(ctx, proof, rule,
                         assumptions=["volume geometry satisfies 0 <= first <= last < 2^31 (what adfCreateVol/adfMountHd can produce for devices < 1 TiB)",
                                      "the RDB readers (adfReadRDSKblock etc.) and mount probes access the device directly by design; they are listed in C13_funnel"])


def replay(ctx, rep):
    print(rep.get("failure"))
    return 0

/*
 * adfh - script-driven harness around the real ADFlib (compiled from /repo's
 * working tree).  One API call per script line, one result line per call.
 *
 * No source hook is needed: the device is a native "mem:" device installed in
 * adfEnv.nativeFct (floppies, RDB disks) or a dump file whose sector functions
 * are intercepted with -Wl,--wrap (hardfiles); the clock is pinned by
 * defining time(); malloc/free and the allocator entry points are wrapped at
 * link time.
 *
 * Result lines:  "<lineno> ok ..." | "<lineno> err ..." | data lines.
 * See DESIGN.md appendix B for the script language.
 */
#define _GNU_SOURCE
#include <errno.h>
#include <setjmp.h>
#include <signal.h>
#include <stdarg.h>
#include <stdint.h>
#include <stdio.h>
#include <stdlib.h>
#include <string.h>
#include <time.h>
#include <unistd.h>
#if defined(__has_include)
# if __has_include(<valgrind/memcheck.h>)
#  include <valgrind/memcheck.h>
#  define HAVE_MEMCHECK 1
# endif
#endif

#include "adflib.h"
#include "adf_bitm.h"
#include "adf_cache.h"
#include "adf_dev_dump.h"
#include "adf_dev_flop.h"
#include "adf_dev_hd.h"
#include "adf_file_block.h"
#include "adf_nativ.h"
#include "adf_raw.h"
#include "adf_salv.h"

/* ------------------------------------------------------------------ */
/* wrapped libc allocation: ledger + prefill                          */

void *__real_malloc(size_t);
void *__real_calloc(size_t, size_t);
void *__real_realloc(void *, size_t);
void __real_free(void *);
char *__real_strdup(const char *);

static int in_lib = 0;          /* >0 while inside an ADFlib API call        */
static int lineno = 0;
static long undef_writes = 0;
static int heapfill = -1;       /* prefill byte for library mallocs, -1=none */
static long malloc_fail_at = 0; /* k-th library malloc from now fails (0=off)*/
static long malloc_count = 0;

#define LEDGER_MAX 65536
static void *ledger[LEDGER_MAX];
static int ledger_n = 0;
static long ledger_dfree = 0;   /* frees of pointers not live in the ledger  */
static long ledger_total = 0;

static void ledger_add(void *p) {
    if (!p) return;
    ledger_total++;
    if (ledger_n < LEDGER_MAX) ledger[ledger_n++] = p;
}
static int ledger_del(void *p) {
    for (int i = ledger_n - 1; i >= 0; i--)
        if (ledger[i] == p) { ledger[i] = ledger[--ledger_n]; return 1; }
    return 0;
}

void *__wrap_malloc(size_t n) {
    if (in_lib) {
        malloc_count++;
        if (malloc_fail_at && malloc_count >= malloc_fail_at) return NULL;
    }
    void *p = __real_malloc(n);
    if (in_lib && p) {
        if (heapfill >= 0) memset(p, heapfill, n);
        ledger_add(p);
    }
    return p;
}
void *__wrap_calloc(size_t a, size_t b) {
    void *p = __real_calloc(a, b);
    if (in_lib) ledger_add(p);
    return p;
}
void *__wrap_realloc(void *q, size_t n) {
    if (in_lib && q) ledger_del(q);
    void *p = __real_realloc(q, n);
    if (in_lib) ledger_add(p);
    return p;
}
void __wrap_free(void *p) {
    if (p && in_lib) { if (!ledger_del(p)) ledger_dfree++; }
    else if (p) ledger_del(p);   /* harness freeing a library object (lists) */
    __real_free(p);
}
char *__wrap_strdup(const char *s) {
    size_t n = strlen(s) + 1;
    char *p = __wrap_malloc(n);
    if (p) memcpy(p, s, n);
    return p;
}

/* ------------------------------------------------------------------ */
/* pinned clock                                                       */

static time_t pinned_clock = 1000000000; /* 2001-09-09 */
time_t time(time_t *t) { if (t) *t = pinned_clock; return pinned_clock; }

/* ------------------------------------------------------------------ */
/* device storage, I/O log, fault schedule                             */

static uint8_t *mem = NULL;      /* device bytes (native mem device)         */
static size_t mem_size = 0;
static uint32_t g_cyl, g_heads, g_sect;
static char work[512] = ".";
static char devname[600];
static int dev_is_file = 0;

static FILE *wlog = NULL;        /* ordered write log (block, 512 bytes hex) */
static int wlog_full = 0, wlog_reads = 0;
static long n_reads = 0, n_writes = 0;      /* since last reset              */
static long fault_rd = 0, fault_wr = 0;     /* k-th read/write fails (1-based; 0 = off) */
static long fault_cnt = 1;                  /* ... and the fault_cnt - 1 transfers after it (a burst) */
static int fault_sticky = 0;
static long rd_since = 0, wr_since = 0;
static long read_limit = 0;      /* per-call read budget (0 = unlimited)     */
static long reads_this_call = 0;
static sigjmp_buf bail;
static int bail_armed = 0;
static uint8_t garbage_byte = 0x55;
static int garbage_keep = 0;      /* 1: a failing read leaves the caller's buffer as it was */
static long total_dev_writes = 0;
static int tag_vol = -1;

static uint32_t fnv32(const uint8_t *p, size_t n) {
    uint32_t h = 2166136261u;
    for (size_t i = 0; i < n; i++) { h ^= p[i]; h *= 16777619u; }
    return h;
}

/* blocks the device refuses to read ("badblk <n>", "badblk clear"): the fault model of Model/FileIO.v */
#define BADBLK_MAX 32
static uint32_t badblk[BADBLK_MAX];
static int badblk_n = 0;
static int is_badblk(uint32_t n) { for (int i = 0; i < badblk_n; i++) if (badblk[i] == n) return 1; return 0; }

static int io_hook(int is_write, uint32_t n, unsigned size, const uint8_t *wbuf, uint8_t *rbuf) {
    if (!is_write) {
        n_reads++; rd_since++; reads_this_call++;
        if (badblk_n && is_badblk(n)) {
            if (wlog && wlog_reads) fprintf(wlog, "R %u %u\n", n, size);
            if (rbuf && !garbage_keep) memset(rbuf, garbage_byte, size);
            return -1;
        }
        if (read_limit && reads_this_call > read_limit && bail_armed) siglongjmp(bail, 1);
        if (wlog && wlog_reads) fprintf(wlog, "R %u %u\n", n, size);
        if (fault_rd && ((rd_since >= fault_rd && rd_since < fault_rd + fault_cnt) || (fault_sticky && rd_since > fault_rd))) {
            if (rbuf && !garbage_keep) memset(rbuf, garbage_byte, size);
            return -1;
        }
    } else {
        n_writes++; wr_since++;
        if (fault_wr && (wr_since == fault_wr || (fault_sticky && wr_since > fault_wr)))
            return -1;
        total_dev_writes++;
#ifdef HAVE_MEMCHECK
        /* under valgrind: every byte handed to the device must be defined (C17: no uninitialised heap or stack content
           reaches the image - including remnants of earlier callees' frames, which a prefill of the stack cannot show) */
        if (RUNNING_ON_VALGRIND) {
            unsigned long bad = VALGRIND_CHECK_MEM_IS_DEFINED(wbuf, size);
            if (bad) { printf("%d undef block=%u offset=%lu size=%u\n", lineno, n, bad - (unsigned long)wbuf, size); undef_writes++; }
        }
#endif
        if (wlog) {
            fprintf(wlog, "W %u %u %08x", n, size, fnv32(wbuf, size));
            if (wlog_full) {
                fputc(' ', wlog);
                for (unsigned i = 0; i < size; i++) fprintf(wlog, "%02x", wbuf[i]);
            }
            fputc('\n', wlog);
        }
    }
    return 0;
}

/* native "mem:" device; g_wprotect: the medium is write-protected - the driver can only get read-only access and says so, whatever
   access was asked for (what adfInitDumpDevice does on EACCES / EROFS), and the medium refuses writes */
static int g_wprotect = 0;
static RETCODE memInit(struct AdfDevice *const dev, const char *const name, const BOOL ro) {
    (void)name; (void)ro;
    if (g_wprotect) dev->readOnly = TRUE;
    dev->size = (uint32_t)mem_size;
    dev->cylinders = g_cyl; dev->heads = g_heads; dev->sectors = g_sect;
    return RC_OK;
}
static RETCODE memRelease(struct AdfDevice *const dev) { (void)dev; return RC_OK; }
static RETCODE memRead(struct AdfDevice *const dev, const uint32_t n, const unsigned size, uint8_t *const buf) {
    (void)dev;
    if (io_hook(0, n, size, NULL, buf)) return RC_ERROR;
    if ((uint64_t)n * 512 + size > mem_size) return RC_ERROR;
    memcpy(buf, mem + (size_t)n * 512, size);
    return RC_OK;
}
static RETCODE memWrite(struct AdfDevice *const dev, const uint32_t n, const unsigned size, const uint8_t *const buf) {
    (void)dev;
    if (io_hook(1, n, size, buf, NULL)) return RC_ERROR;
    if (g_wprotect) return RC_ERROR;
    if ((uint64_t)n * 512 + size > mem_size) return RC_ERROR;
    memcpy(mem + (size_t)n * 512, buf, size);
    return RC_OK;
}
static BOOL memIsNative(const char *const name) { return strncmp(name, "mem:", 4) == 0; }

/* dump-file devices: intercept the sector functions */
RETCODE __real_adfReadDumpSector(struct AdfDevice *const, const uint32_t, const unsigned, uint8_t *const);
RETCODE __real_adfWriteDumpSector(struct AdfDevice *const, const uint32_t, const unsigned, const uint8_t *const);
RETCODE __wrap_adfReadDumpSector(struct AdfDevice *const dev, const uint32_t n, const unsigned size, uint8_t *const buf) {
    if (io_hook(0, n, size, NULL, buf)) return RC_ERROR;
    return __real_adfReadDumpSector(dev, n, size, buf);
}
RETCODE __wrap_adfWriteDumpSector(struct AdfDevice *const dev, const uint32_t n, const unsigned size, const uint8_t *const buf) {
    if (io_hook(1, n, size, buf, NULL)) return RC_ERROR;
    return __real_adfWriteDumpSector(dev, n, size, buf);
}

/* allocator interception */
static long alloc_fail_at = 0, alloc_count = 0;
static FILE *alog = NULL;
SECTNUM __real_adfGet1FreeBlock(struct AdfVolume *const);
BOOL __real_adfGetFreeBlocks(struct AdfVolume *const, const int, SECTNUM *const);
/* every block number the allocator has handed out since "atrack" (the file-handle correspondence dumps these blocks) */
#define ATRACK_MAX 8192
static SECTNUM atrack[ATRACK_MAX];
static int atrack_n = -1;       /* -1 = off */
static void atrack_add(SECTNUM r) {
    if (atrack_n < 0 || r < 0) return;
    for (int i = 0; i < atrack_n; i++) if (atrack[i] == r) return;
    if (atrack_n < ATRACK_MAX) atrack[atrack_n++] = r;
}
SECTNUM __wrap_adfGet1FreeBlock(struct AdfVolume *const vol) {
    alloc_count++;
    if (alloc_fail_at && alloc_count >= alloc_fail_at) return -1;
    SECTNUM r = __real_adfGet1FreeBlock(vol);
    if (alog) fprintf(alog, "A1 %d\n", r);
    atrack_add(r);
    return r;
}
BOOL __wrap_adfGetFreeBlocks(struct AdfVolume *const vol, const int nb, SECTNUM *const l) {
    alloc_count++;
    if (alloc_fail_at && alloc_count >= alloc_fail_at) return FALSE;
    BOOL r = __real_adfGetFreeBlocks(vol, nb, l);
    if (alog) { fprintf(alog, "AN %d %d", nb, r); if (r) for (int i = 0; i < nb; i++) fprintf(alog, " %d", l[i]); fputc('\n', alog); }
    if (r) for (int i = 0; i < nb; i++) atrack_add(l[i]);
    return r;
}

/* ------------------------------------------------------------------ */
/* quiet library messages                                             */
static long n_warn = 0, n_err = 0;
static int verbose = 0;
static void qWarn(const char *const f, ...) { n_warn++; if (verbose) { va_list ap; va_start(ap, f); fprintf(stderr, "W<"); vfprintf(stderr, f, ap); fprintf(stderr, ">\n"); va_end(ap);} }
static void qErr(const char *const f, ...) { n_err++; if (verbose) { va_list ap; va_start(ap, f); fprintf(stderr, "E<"); vfprintf(stderr, f, ap); fprintf(stderr, ">\n"); va_end(ap);} }
static void qVerb(const char *const f, ...) { (void)f; }

/* ------------------------------------------------------------------ */
/* helpers                                                            */

static struct AdfDevice *dev = NULL;
static struct AdfVolume *vol = NULL;
#define NH 8
static struct AdfFile *fh[NH];
static int stackfill = -1;

static void out(const char *fmt, ...) {
    va_list ap; va_start(ap, fmt);
    printf("%d ", lineno); vprintf(fmt, ap); putchar('\n');
    va_end(ap);
}

static int hexval(int c) { return c >= '0' && c <= '9' ? c - '0' : c >= 'a' && c <= 'f' ? c - 'a' + 10 : c >= 'A' && c <= 'F' ? c - 'A' + 10 : -1; }
/* decode hex string into NUL-terminated buffer; "-" = empty */
static char *unhex(const char *s) {
    static char bufs[6][1024]; static int k = 0;
    char *b = bufs[k = (k + 1) % 6]; size_t n = 0;
    if (strcmp(s, "-") == 0) { b[0] = 0; return b; }
    while (s[0] && s[1] && n < 1000) { b[n++] = (char)(hexval(s[0]) * 16 + hexval(s[1])); s += 2; }
    b[n] = 0; return b;
}
static void printhex(const char *s) { if (!s || !*s) { putchar('-'); return; } for (; *s; s++) printf("%02x", (uint8_t)*s); }

static uint32_t xs_state;
static void xs_seed(uint32_t s) { xs_state = s ? s : 0x9e3779b9u; }
static uint8_t xs_next(void) { uint32_t x = xs_state; x ^= x << 13; x ^= x >> 17; x ^= x << 5; xs_state = x; return (uint8_t)(x >> 8); }

static __attribute__((noinline)) void fill_stack(int byte) {
    volatile uint8_t big[48 * 1024];
    for (size_t i = 0; i < sizeof big; i++) big[i] = (uint8_t)byte;
}
#define ENTER() do { if (stackfill >= 0) fill_stack(stackfill); reads_this_call = 0; in_lib++; } while (0)
#define LEAVE() do { in_lib--; } while (0)

/* resolve a directory path ("-" root, or hex/hex/...) to vol->curDirPtr; returns 0 on success */
static int goto_dir(const char *path) {
    adfToRootDir(vol);
    if (strcmp(path, "-") == 0) return 0;
    char tmp[2048]; strncpy(tmp, path, sizeof tmp - 1); tmp[sizeof tmp - 1] = 0;
    for (char *tok = strtok(tmp, "/"); tok; tok = strtok(NULL, "/")) {
        if (adfChangeDir(vol, unhex(tok)) != RC_OK) return -1;
    }
    return 0;
}

static SECTNUM last_lookup = 0;
/* header sectors found by lookups, by name (hex): "undel <dir> L <namehex>" undeletes the entry a lookup found under that name */
static struct { char name[64]; SECTNUM sect; } seen_names[128];
static int n_seen = 0;
static void remember_name(const char *hex, SECTNUM s) {
    for (int i = 0; i < n_seen; i++) if (!strcmp(seen_names[i].name, hex)) { seen_names[i].sect = s; return; }
    if (n_seen < 128) { snprintf(seen_names[n_seen].name, 64, "%s", hex); seen_names[n_seen++].sect = s; }
}
static SECTNUM recall_name(const char *hex) {
    for (int i = 0; i < n_seen; i++) if (!strcmp(seen_names[i].name, hex)) return seen_names[i].sect;
    return last_lookup;
}
static void dump_image(const char *path) {
    FILE *f = fopen(path, "wb");
    if (!f) { out("err dump fopen"); return; }
    if (dev_is_file) {
        if (dev && dev->fd) fflush(dev->fd);      /* the library's stdio buffer may hold the last writes */
        FILE *g = fopen(devname, "rb");
        if (g) { uint8_t b[4096]; size_t n; while ((n = fread(b, 1, sizeof b, g)) > 0) fwrite(b, 1, n, f); fclose(g); }
    } else fwrite(mem, 1, mem_size, f);
    fclose(f);
}

static void print_list(struct AdfList *l, int depth, int rec) {
    for (; l; l = l->next) {
        struct AdfEntry *e = l->content;
        printf("%d E %d type=%d sect=%d par=%d size=%u acc=%d real=%d date=%d/%d/%d-%d:%d:%d name=", lineno, depth,
               e->type, e->sector, e->parent, e->size, e->access, e->real, e->year, e->month, e->days, e->hour, e->mins, e->secs);
        printhex(e->name); printf(" cmt="); printhex(e->comment); putchar('\n');
        if (rec && l->subdir) print_list(l->subdir, depth + 1, rec);
    }
}

static void on_signal(int sig) {
    char b[64]; int n = snprintf(b, sizeof b, "%d crash sig=%d\n", lineno, sig);
    if (write(1, b, (size_t)n) < 0) {}
    _exit(4);
}

static int install_mem_native(void) {
    struct AdfNativeFunctions *nf = adfEnv.nativeFct;
    nf->adfInitDevice = memInit; nf->adfReleaseDevice = memRelease;
    nf->adfNativeReadSector = memRead; nf->adfNativeWriteSector = memWrite;
    nf->adfIsDevNative = memIsNative;
    return 0;
}

static void close_handles(void) { for (int i = 0; i < NH; i++) fh[i] = NULL; }

/* ------------------------------------------------------------------ */

int main(int argc, char **argv) {
    if (argc < 2) { fprintf(stderr, "usage: adfh <script> [workdir]\n"); return 2; }
    if (argc > 2) snprintf(work, sizeof work, "%s", argv[2]);
    setenv("TZ", "UTC", 1); tzset();
    FILE *sc = strcmp(argv[1], "-") ? fopen(argv[1], "r") : stdin;
    if (!sc) { perror(argv[1]); return 2; }
    setvbuf(stdout, NULL, _IOFBF, 1 << 16);

    static uint8_t altstack[1 << 16];
    stack_t ss = { .ss_sp = altstack, .ss_size = sizeof altstack, .ss_flags = 0 };
    sigaltstack(&ss, NULL);
    struct sigaction sa; memset(&sa, 0, sizeof sa); sa.sa_handler = on_signal; sa.sa_flags = SA_ONSTACK;
#ifndef ADFH_SANITIZE
    sigaction(SIGSEGV, &sa, NULL); sigaction(SIGBUS, &sa, NULL); sigaction(SIGFPE, &sa, NULL); sigaction(SIGABRT, &sa, NULL);
#endif
    sigaction(SIGALRM, &sa, NULL);

    adfEnvInitDefault();
    adfSetEnvFct(qErr, qWarn, qVerb, NULL);
    install_mem_native();

    char line[8192];
    unsigned alarm_secs = getenv("ADFH_ALARM") ? (unsigned)atoi(getenv("ADFH_ALARM")) : 60;
    if (!alarm_secs) alarm_secs = 60;
    while (fgets(line, sizeof line, sc)) {
        lineno++;
        char *nl = strchr(line, '\n'); if (nl) *nl = 0;
        if (!line[0] || line[0] == '#') continue;
        char *a[64]; int na = 0;
        for (char *t = strtok(line, " "); t && na < 64; t = strtok(NULL, " ")) a[na++] = t;
        if (!na) continue;
        const char *c = a[0];
        fflush(stdout);
        alarm(alarm_secs);

        if (!strcmp(c, "verbose")) { verbose = atoi(a[1]); out("ok"); }
        else if (!strcmp(c, "spectree") || !strcmp(c, "specintl") || !strcmp(c, "nospace")) { out("ok"); }
        else if (!strcmp(c, "clock")) { pinned_clock = (time_t)atoll(a[1]); out("ok"); }
        else if (!strcmp(c, "heapfill")) { heapfill = atoi(a[1]); out("ok"); }
        else if (!strcmp(c, "stackfill")) { stackfill = atoi(a[1]); out("ok"); }
        else if (!strcmp(c, "garbage")) { if (!strcmp(a[1], "keep")) garbage_keep = 1; else { garbage_keep = 0; garbage_byte = (uint8_t)atoi(a[1]); } out("ok"); }
        else if (!strcmp(c, "readlimit")) { read_limit = atol(a[1]); out("ok"); }
        else if (!strcmp(c, "usedircache")) { BOOL b = atoi(a[1]); adfChgEnvProp(PR_USEDIRC, &b); out("ok"); }
        else if (!strcmp(c, "newdev")) {
            /* newdev mem|file <cyl> <heads> <sect> [fill] */
            g_cyl = (uint32_t)atol(a[2]); g_heads = (uint32_t)atol(a[3]); g_sect = (uint32_t)atol(a[4]);
            size_t nb = (size_t)g_cyl * g_heads * g_sect;
            int fill = na > 5 ? atoi(a[5]) : 0;
            dev_is_file = !strcmp(a[1], "file");
            if (dev_is_file) {
                snprintf(devname, sizeof devname, "%s/dev.img", work);
                ENTER(); dev = adfCreateDumpDevice(devname, g_cyl, g_heads, g_sect); LEAVE();
                if (dev && fill) { /* pre-fill the file with a pattern */
                    uint8_t b[512]; memset(b, fill, 512);
                    for (size_t i = 0; i < nb; i++) { fseek(dev->fd, (long)i * 512, SEEK_SET); fwrite(b, 1, 512, dev->fd); }
                }
            } else {
                __real_free(mem); mem = __real_malloc(nb * 512 ? nb * 512 : 1); mem_size = nb * 512; memset(mem, fill, mem_size);
                snprintf(devname, sizeof devname, "mem:dev");
                ENTER(); dev = adfOpenDev(devname, FALSE); LEAVE();
            }
            vol = NULL; close_handles();
            out(dev ? "ok nblocks=%zu type=%d" : "err", nb, dev ? dev->devType : 0);
        }
        else if (!strcmp(c, "loaddev")) {
            /* loaddev mem|file <path> [cyl heads sect]  : storage from an image file, not opened */
            dev_is_file = !strcmp(a[1], "file");
            FILE *f = fopen(a[2], "rb");
            if (!f) { out("err fopen"); continue; }
            fseek(f, 0, SEEK_END); long sz = ftell(f); fseek(f, 0, SEEK_SET);
            g_cyl = na > 3 ? (uint32_t)atol(a[3]) : 0; g_heads = na > 4 ? (uint32_t)atol(a[4]) : 0; g_sect = na > 5 ? (uint32_t)atol(a[5]) : 0;
            if (dev_is_file) {
                snprintf(devname, sizeof devname, "%s/dev.img", work);
                FILE *g = fopen(devname, "wb"); uint8_t b[4096]; size_t n;
                while ((n = fread(b, 1, sizeof b, f)) > 0) fwrite(b, 1, n, g);
                fclose(g);
            } else {
                __real_free(mem); mem = __real_malloc(sz ? (size_t)sz : 1); mem_size = (size_t)sz;
                if (fread(mem, 1, (size_t)sz, f) != (size_t)sz) {}
                snprintf(devname, sizeof devname, "mem:dev");
            }
            fclose(f); dev = NULL; vol = NULL; close_handles();
            out("ok size=%ld", sz);
        }
        else if (!strcmp(c, "opendev")) { /* opendev ro */
            ENTER(); dev = adfOpenDev(devname, atoi(a[1])); LEAVE(); vol = NULL;
            out(dev ? "ok type=%d" : "err", dev ? dev->devType : 0);
        }
        else if (!strcmp(c, "mkflop")) { /* mkflop <type> <namehex> */
            ENTER(); RETCODE rc = adfCreateFlop(dev, unhex(a[2]), (uint8_t)atoi(a[1])); LEAVE();
            out(rc == RC_OK ? "ok" : "err rc=%d", rc);
        }
        else if (!strcmp(c, "mkhdf")) {
            ENTER(); RETCODE rc = adfCreateHdFile(dev, unhex(a[2]), (uint8_t)atoi(a[1])); LEAVE();
            out(rc == RC_OK ? "ok" : "err rc=%d", rc);
        }
        else if (!strcmp(c, "mkhd")) { /* mkhd <n> {<startCyl> <lenCyl> <type> <namehex>} */
            int n = atoi(a[1]);
            struct Partition *pl[16]; struct Partition ps[16]; char names[16][64];
            for (int i = 0; i < n && i < 16; i++) {
                ps[i].startCyl = atoi(a[2 + 4 * i]); ps[i].lenCyl = atoi(a[3 + 4 * i]);
                ps[i].volType = (uint8_t)atoi(a[4 + 4 * i]);
                snprintf(names[i], 64, "%s", unhex(a[5 + 4 * i])); ps[i].volName = names[i]; pl[i] = &ps[i];
            }
            ENTER(); RETCODE rc = adfCreateHd(dev, (unsigned)n, (const struct Partition *const *)pl); LEAVE();
            out(rc == RC_OK ? "ok" : "err rc=%d", rc);
        }
        else if (!strcmp(c, "closedev")) { ENTER(); adfCloseDev(dev); LEAVE(); dev = NULL; vol = NULL; close_handles(); out("ok"); }
        else if (!strcmp(c, "wprotect")) { g_wprotect = atoi(a[1]); out("ok"); }
        else if (!strcmp(c, "mountdev")) { /* mountdev <ro> */
            bail_armed = 1;
            if (sigsetjmp(bail, 1)) { in_lib = 0; bail_armed = 0; out("hang"); fflush(stdout); _exit(3); }
            ENTER(); dev = adfMountDev(devname, atoi(a[1])); LEAVE(); bail_armed = 0; vol = NULL;
            if (!dev) out("err"); else {
                printf("%d ok type=%d ro=%d nvol=%d cyl=%u heads=%u sect=%u", lineno, dev->devType, dev->readOnly, dev->nVol, dev->cylinders, dev->heads, dev->sectors);
                for (int i = 0; i < dev->nVol; i++) printf(" v%d=%d:%d:%d", i, dev->volList[i]->firstBlock, dev->volList[i]->lastBlock, dev->volList[i]->rootBlock);
                putchar('\n');
            }
        }
        else if (!strcmp(c, "mount")) { /* mount <part> <ro> */
            bail_armed = 1;
            if (sigsetjmp(bail, 1)) { in_lib = 0; bail_armed = 0; out("hang"); fflush(stdout); _exit(3); }
            ENTER(); vol = dev ? adfMount(dev, atoi(a[1]), atoi(a[2])) : NULL; LEAVE(); bail_armed = 0;
            tag_vol = atoi(a[1]);
            if (!vol) out("err"); else {
                printf("%d ok first=%d last=%d root=%d dostype=%d ro=%d bmsize=%u dbs=%u name=", lineno, vol->firstBlock, vol->lastBlock, vol->rootBlock,
                       vol->dosType, vol->readOnly, vol->bitmapSize, vol->datablockSize);
                printhex(vol->volName); putchar('\n');
            }
        }
        else if (!strcmp(c, "umount")) { if (vol) { ENTER(); adfUnMount(vol); LEAVE(); } vol = NULL; close_handles(); out("ok"); }
        else if (!strcmp(c, "umountdev")) { if (dev) { ENTER(); adfUnMountDev(dev); LEAVE(); } dev = NULL; vol = NULL; close_handles(); out("ok"); }
        else if (!strcmp(c, "free")) { if (!vol) { out("err novol"); continue; } ENTER(); uint32_t n = adfCountFreeBlocks(vol); LEAVE(); out("ok free=%u", n); }
        else if (!strcmp(c, "ledger")) { out("ok live=%d dfree=%ld total=%ld", ledger_n, ledger_dfree, ledger_total); }
        else if (!strcmp(c, "counters")) { out("ok reads=%ld writes=%ld devwrites=%ld warn=%ld errs=%ld", n_reads, n_writes, total_dev_writes, n_warn, n_err); }
        else if (!strcmp(c, "fault")) { /* fault rd|wr <k> [sticky] ; fault clear */
            if (!strcmp(a[1], "clear")) { fault_rd = fault_wr = 0; fault_sticky = 0; fault_cnt = 1; }
            else { rd_since = wr_since = 0; fault_sticky = na > 3 && !strcmp(a[3], "sticky");
                   fault_cnt = (na > 3 && a[3][0] >= '0' && a[3][0] <= '9') ? atol(a[3]) : 1;   /* fault rd <k> <n>: reads k .. k+n-1 fail */
                   if (!strcmp(a[1], "rd")) { fault_rd = atol(a[2]); fault_wr = 0; } else { fault_wr = atol(a[2]); fault_rd = 0; } }
            out("ok");
        }
        else if (!strcmp(c, "allocfail")) { alloc_count = 0; alloc_fail_at = atol(a[1]); out("ok"); }
        else if (!strcmp(c, "mallocfail")) { malloc_count = 0; malloc_fail_at = atol(a[1]); out("ok"); }
        else if (!strcmp(c, "wlog")) { /* wlog <path> [full] | wlog off */
            if (wlog) fclose(wlog); wlog = NULL;
            if (strcmp(a[1], "off")) { wlog = fopen(a[1], "w"); wlog_full = 0; wlog_reads = 0;
                for (int i = 2; i < na; i++) { if (!strcmp(a[i], "full")) wlog_full = 1; if (!strcmp(a[i], "reads")) wlog_reads = 1; } }
            out("ok");
        }
        else if (!strcmp(c, "wmark")) { if (wlog) fprintf(wlog, "M %s\n", na > 1 ? a[1] : "-"); out("ok"); }
        else if (!strcmp(c, "alog")) { if (alog) fclose(alog); alog = NULL; if (strcmp(a[1], "off")) alog = fopen(a[1], "w"); out("ok"); }
        else if (!strcmp(c, "amark")) { if (alog) fprintf(alog, "M %s\n", na > 1 ? a[1] : "-"); out("ok"); }
        else if (!strcmp(c, "dump")) { if (wlog) fflush(wlog); dump_image(a[1]); out("ok"); }
        else if (!strcmp(c, "poke")) { /* poke <block> <offset> <hexbytes> : modify device bytes directly (mem device) */
            size_t off = (size_t)atol(a[1]) * 512 + (size_t)atol(a[2]); const char *h = a[3];
            while (h[0] && h[1] && off < mem_size) { mem[off++] = (uint8_t)(hexval(h[0]) * 16 + hexval(h[1])); h += 2; }
            out("ok");
        }
        else if (!strcmp(c, "poke32")) { /* poke32 <physblock> <offset> <value> [fixsum <sumoffset>] : big-endian field, optional normal-checksum repair */
            size_t off = (size_t)atol(a[1]) * 512; uint32_t v = (uint32_t)strtoul(a[3], NULL, 0); size_t fo = (size_t)atol(a[2]);
            if (off + 512 > mem_size) { out("err range"); continue; }
            mem[off + fo] = v >> 24; mem[off + fo + 1] = v >> 16; mem[off + fo + 2] = v >> 8; mem[off + fo + 3] = v;
            if (na > 5 && !strcmp(a[4], "fixsum")) { size_t so = (size_t)atol(a[5]); uint32_t sum = 0;
                for (size_t i = 0; i < 512; i += 4) if (i != so) sum += ((uint32_t)mem[off+i] << 24) | (mem[off+i+1] << 16) | (mem[off+i+2] << 8) | mem[off+i+3];
                sum = (uint32_t)(-(int32_t)sum); mem[off+so] = sum >> 24; mem[off+so+1] = sum >> 16; mem[off+so+2] = sum >> 8; mem[off+so+3] = sum; }
            out("ok");
        }
        else if (!strcmp(c, "peek32")) { size_t off = (size_t)atol(a[1]) * 512 + (size_t)atol(a[2]);
            if (off + 4 > mem_size) { out("err range"); continue; }
            out("ok %u", ((uint32_t)mem[off] << 24) | (mem[off+1] << 16) | (mem[off+2] << 8) | mem[off+3]); }
        else if (!vol && strcmp(c, "end")) { out("err novol"); }
        else if (!strcmp(c, "mkdir")) { /* mkdir <dirpath> <namehex> */
            if (goto_dir(a[1])) { out("err nopath"); continue; }
            ENTER(); RETCODE rc = adfCreateDir(vol, vol->curDirPtr, unhex(a[2])); LEAVE();
            out(rc == RC_OK ? "ok" : "err rc=%d", rc);
        }
        else if (!strcmp(c, "rm")) {
            if (goto_dir(a[1])) { out("err nopath"); continue; }
            ENTER(); RETCODE rc = adfRemoveEntry(vol, vol->curDirPtr, unhex(a[2])); LEAVE();
            out(rc == RC_OK ? "ok" : "err rc=%d", rc);
        }
        else if (!strcmp(c, "mv")) { /* mv <dirpath> <old> <dirpath2> <new> */
            if (goto_dir(a[1])) { out("err nopath"); continue; }
            SECTNUM p1 = vol->curDirPtr;
            if (goto_dir(a[3])) { out("err nopath"); continue; }
            SECTNUM p2 = vol->curDirPtr;
            ENTER(); RETCODE rc = adfRenameEntry(vol, p1, unhex(a[2]), p2, unhex(a[4])); LEAVE();
            out(rc == RC_OK ? "ok" : "err rc=%d", rc);
        }
        else if (!strcmp(c, "comment")) {
            if (goto_dir(a[1])) { out("err nopath"); continue; }
            ENTER(); RETCODE rc = adfSetEntryComment(vol, vol->curDirPtr, unhex(a[2]), unhex(a[3])); LEAVE();
            out(rc == RC_OK ? "ok" : "err rc=%d", rc);
        }
        else if (!strcmp(c, "prot")) {
            if (goto_dir(a[1])) { out("err nopath"); continue; }
            ENTER(); RETCODE rc = adfSetEntryAccess(vol, vol->curDirPtr, unhex(a[2]), (int32_t)strtoul(a[3], NULL, 0)); LEAVE();
            out(rc == RC_OK ? "ok" : "err rc=%d", rc);
        }
        else if (!strcmp(c, "undel")) { /* undel <dirpath> <sector> */
            if (goto_dir(a[1])) { out("err nopath"); continue; }
            /* "L" = header sector found by the last successful lookup (scripts are static: the sector is not known when they are written) */
            ENTER(); RETCODE rc = adfUndelEntry(vol, vol->curDirPtr, a[2][0] == 'L' ? (na > 3 ? recall_name(a[3]) : last_lookup) : atoi(a[2])); LEAVE();
            out(rc == RC_OK ? "ok" : "err rc=%d", rc);
        }
        else if (!strcmp(c, "dellist")) { /* dellist : adfGetDelEnt (the deleted entries whose header blocks are still free), printed and released */
            bail_armed = 1;
            if (sigsetjmp(bail, 1)) { in_lib = 0; bail_armed = 0; out("hang"); fflush(stdout); _exit(3); }
            ENTER(); struct AdfList *dl = adfGetDelEnt(vol); LEAVE(); bail_armed = 0;
            int nd = 0;
            for (struct AdfList *c_ = dl; c_; c_ = c_->next) {
                struct GenBlock *g = c_->content;
                printf("%d D sect=%d parent=%d type=%d sectype=%d name=", lineno, g->sect, g->parent, g->type, g->secType); printhex(g->name); putchar('\n'); nd++;
            }
            ENTER(); adfFreeDelList(dl); LEAVE();
            out("ok n=%d", nd);
        }
        else if (!strcmp(c, "bootinst")) {
            static uint8_t code[1024]; memset(code, 0x4e, sizeof code);
            ENTER(); RETCODE rc = adfInstallBootBlock(vol, code); LEAVE();
            out(rc == RC_OK ? "ok" : "err rc=%d", rc);
        }
        else if (!strcmp(c, "list")) { /* list <dirpath> <usecache> <rec> */
            if (goto_dir(a[1])) { out("err nopath"); continue; }
            BOOL uc = atoi(a[2]); adfChgEnvProp(PR_USEDIRC, &uc);
            int rec = na > 3 ? atoi(a[3]) : 0;
            bail_armed = 1;
            if (sigsetjmp(bail, 1)) { in_lib = 0; bail_armed = 0; out("hang"); fflush(stdout); _exit(3); }
            ENTER(); struct AdfList *l = adfGetRDirEnt(vol, vol->curDirPtr, rec); LEAVE(); bail_armed = 0;
            int n = 0; for (struct AdfList *p = l; p; p = p->next) n++;
            long rd = reads_this_call;
            print_list(l, 0, rec);
            ENTER(); if (l) adfFreeDirList(l); LEAVE();
            uc = FALSE; adfChgEnvProp(PR_USEDIRC, &uc);
            out(l || 1 ? "ok n=%d reads=%ld null=%d" : "", n, rd, l == NULL);
        }
        else if (!strcmp(c, "lookup")) { /* lookup <dirpath> <name> */
            if (goto_dir(a[1])) { out("err nopath"); continue; }
            struct bEntryBlock e;
            bail_armed = 1;
            if (sigsetjmp(bail, 1)) { in_lib = 0; bail_armed = 0; out("hang"); fflush(stdout); _exit(3); }
            ENTER(); SECTNUM s = adfGetEntryByName(vol, vol->curDirPtr, unhex(a[2]), &e); LEAVE(); bail_armed = 0;
            if (s == -1 || s <= 0) out("err");
            else { last_lookup = s; remember_name(a[2], s); printf("%d ok sect=%d type=%d size=%u acc=%d name=", lineno, s, e.secType, e.secType == ST_FILE ? e.byteSize : 0, e.access);
                   char nm[32]; unsigned l = e.nameLen > 30 ? 30 : e.nameLen; memcpy(nm, e.name, l); nm[l] = 0; printhex(nm); putchar('\n'); }
        }
        else if (!strcmp(c, "dirchains")) { /* dirchains <dirpath> : hash table and chains of a directory, read raw block by block (no library lookup code) */
            if (goto_dir(a[1])) { out("err nopath"); continue; }
            uint8_t db[512], eb[512];
            if (adfReadBlock(vol, vol->curDirPtr, db) != RC_OK) { out("err read"); continue; }
            printf("%d S ", lineno); int first = 1;
            for (int i = 0; i < 72; i++) {
                uint32_t s = ((uint32_t)db[24 + 4 * i] << 24) | (db[25 + 4 * i] << 16) | (db[26 + 4 * i] << 8) | db[27 + 4 * i];
                if (!s) continue;
                printf("%s%d=", first ? "" : ";", i); first = 0;
                int guard = 0, firstb = 1;
                while (s && guard++ < 4000) {
                    if (adfReadBlock(vol, s, eb) != RC_OK) { printf("%s%u:?", firstb ? "" : ",", s); break; }
                    unsigned nl = eb[432]; if (nl > 30) nl = 30;
                    printf("%s%u:", firstb ? "" : ",", s); firstb = 0;
                    if (!nl) putchar('-');
                    for (unsigned k = 0; k < nl; k++) printf("%02x", eb[433 + k]);
                    s = ((uint32_t)eb[496] << 24) | (eb[497] << 16) | (eb[498] << 8) | eb[499];
                }
            }
            putchar('\n');
        }
        else if (!strcmp(c, "cachechain")) { /* cachechain <dirpath> : the directory-cache chain of a directory, read raw: per block its number,
                                               record count and the (header key : record length) of every record */
            if (goto_dir(a[1])) { out("err nopath"); continue; }
            uint8_t db[512], cb[512];
            if (adfReadBlock(vol, vol->curDirPtr, db) != RC_OK) { out("err read"); continue; }
            #define BE32c(p_) (((uint32_t)(p_)[0] << 24) | ((p_)[1] << 16) | ((p_)[2] << 8) | (p_)[3])
            uint32_t x = BE32c(db + 504); int guard = 0, firstb = 1;
            printf("%d C ", lineno);
            while (x && guard++ < 400) {
                if (adfReadBlock(vol, x, cb) != RC_OK) { printf("%s%u=?", firstb ? "" : "|", x); break; }
                uint32_t nrec = BE32c(cb + 12);
                printf("%s%u=", firstb ? "" : "|", x); firstb = 0;
                unsigned p_ = 0;
                for (uint32_t i = 0; i < nrec && i < 64; i++) {
                    if (p_ + 25 > 488) { printf("%s?", i ? "," : ""); break; }
                    unsigned nl = cb[24 + p_ + 23]; unsigned cl = (p_ + 24 + nl < 488) ? cb[24 + p_ + 24 + nl] : 0;
                    unsigned ln = 25 + nl + cl; ln += ln & 1;
                    printf("%s%u:%u", i ? "," : "", BE32c(cb + 24 + p_), ln);
                    p_ += ln;
                }
                /* bytes behind the last record must be zero (records are packed, the rest of the area is cleared) */
                int dirty = 0; for (unsigned i = p_; i < 488; i++) if (cb[24 + i]) dirty = 1;
                if (dirty) printf("!");
                x = BE32c(cb + 16);
            }
            putchar('\n');
        }
        else if (!strcmp(c, "filemap")) { /* filemap <dirpath> <name> : header and extension tables of a file, read raw block by block */
            if (goto_dir(a[1])) { out("err nopath"); continue; }
            struct bEntryBlock e;
            ENTER(); SECTNUM s = adfGetEntryByName(vol, vol->curDirPtr, unhex(a[2]), &e); LEAVE();
            if (s <= 0) { out("err"); continue; }
            uint8_t hb[512], xb[512];
            if (adfReadBlock(vol, (uint32_t)s, hb) != RC_OK) { out("err read"); continue; }
            #define BE32(p_) (((uint32_t)(p_)[0] << 24) | ((p_)[1] << 16) | ((p_)[2] << 8) | (p_)[3])
            printf("%d M hdr=%d size=%u highseq=%u first=%u H ", lineno, s, BE32(hb + 324), BE32(hb + 8), BE32(hb + 16));
            /* all 72 slots in logical order (slot 71 first), zeros included */
            for (int i = 0; i < 72; i++) printf("%s%u", i ? "," : "", BE32(hb + 24 + 4 * (71 - i)));
            printf(" ; E ");
            uint32_t x = BE32(hb + 504); int guard = 0, firstx = 1;
            while (x && guard++ < 400) {
                if (adfReadBlock(vol, x, xb) != RC_OK) { printf("%s%u=?", firstx ? "" : "|", x); break; }
                printf("%s%u:%u:%u:%u=", firstx ? "" : "|", x, BE32(xb + 8), BE32(xb + 500), BE32(xb + 4)); firstx = 0;
                for (int i = 0; i < 72; i++) printf("%s%u", i ? "," : "", BE32(xb + 24 + 4 * (71 - i)));
                x = BE32(xb + 504);
            }
            putchar('\n');
        }
        else if (!strcmp(c, "fileblocks")) { /* fileblocks <dirpath> <name> : the block lists of a file (adfGetFileBlocks, read-only) */
            if (goto_dir(a[1])) { out("err nopath"); continue; }
            struct bEntryBlock e;
            bail_armed = 1;
            if (sigsetjmp(bail, 1)) { in_lib = 0; bail_armed = 0; out("hang"); fflush(stdout); _exit(3); }
            ENTER(); SECTNUM s = adfGetEntryByName(vol, vol->curDirPtr, unhex(a[2]), &e); LEAVE();
            if (s <= 0 || e.secType != ST_FILE) { bail_armed = 0; out("err"); }
            else {
                struct AdfFileBlocks fb; memset(&fb, 0, sizeof fb);
                ENTER(); RETCODE rc = adfGetFileBlocks(vol, (struct bFileHeaderBlock *)&e, &fb); LEAVE(); bail_armed = 0;
                if (rc != RC_OK) out("err rc=%d", rc);
                else {
                    uint32_t h = 2166136261u;
                    for (int i = 0; i < fb.nbData; i++) h = (h ^ (uint32_t)fb.data[i]) * 16777619u;
                    for (int i = 0; i < fb.nbExtens; i++) h = (h ^ (uint32_t)fb.extens[i]) * 16777619u;
                    out("ok data=%d ext=%d fnv=%08x", fb.nbData, fb.nbExtens, h);
                    free(fb.data); free(fb.extens);
                }
            }
        }
        else if (!strcmp(c, "cd")) { /* cd <dirpath> */
            bail_armed = 1;
            if (sigsetjmp(bail, 1)) { in_lib = 0; bail_armed = 0; out("hang"); fflush(stdout); _exit(3); }
            ENTER(); int r = goto_dir(a[1]); LEAVE(); bail_armed = 0;
            out(r ? "err" : "ok cur=%d", vol->curDirPtr);
        }
        else if (!strcmp(c, "open")) { /* open <h> <dirpath> <name> <r|w|rw> */
            int h = atoi(a[1]);
            if (goto_dir(a[2])) { out("err nopath"); continue; }
            int mode = 0; if (strchr(a[4], 'r')) mode |= ADF_FILE_MODE_READ; if (strchr(a[4], 'w')) mode |= ADF_FILE_MODE_WRITE;
            bail_armed = 1;
            if (sigsetjmp(bail, 1)) { in_lib = 0; bail_armed = 0; out("hang"); fflush(stdout); _exit(3); }
            ENTER(); fh[h] = adfFileOpen(vol, unhex(a[3]), (AdfFileMode)mode); LEAVE(); bail_armed = 0;
            if (!fh[h]) out("err"); else out("ok size=%u pos=%u eof=%d hdr=%d", adfFileGetSize(fh[h]), adfFileGetPos(fh[h]), adfEndOfFile(fh[h]), fh[h]->fileHdr->headerKey);
        }
        else if (!strcmp(c, "close")) { int h = atoi(a[1]); if (!fh[h]) { out("err nohandle"); continue; } ENTER(); adfFileClose(fh[h]); LEAVE(); fh[h] = NULL; out("ok"); }
        else if (!strcmp(c, "flush")) { int h = atoi(a[1]); if (!fh[h]) { out("err nohandle"); continue; } ENTER(); RETCODE rc = adfFileFlush(fh[h]); LEAVE(); out(rc == RC_OK ? "ok" : "err rc=%d", rc); }
        else if (!strcmp(c, "write")) { /* write <h> <seed> <len> */
            int h = atoi(a[1]); if (!fh[h]) { out("err nohandle"); continue; }
            uint32_t len = (uint32_t)strtoul(a[3], NULL, 0);
            uint8_t *b = __real_malloc(len ? len : 1); xs_seed((uint32_t)strtoul(a[2], NULL, 0));
            for (uint32_t i = 0; i < len; i++) b[i] = xs_next();
            ENTER(); uint32_t n = adfFileWrite(fh[h], len, b); LEAVE();
            __real_free(b);
            out("ok n=%u pos=%u size=%u eof=%d", n, adfFileGetPos(fh[h]), adfFileGetSize(fh[h]), adfEndOfFile(fh[h]));
        }
        else if (!strcmp(c, "read")) { /* read <h> <len> */
            int h = atoi(a[1]); if (!fh[h]) { out("err nohandle"); continue; }
            uint32_t len = (uint32_t)strtoul(a[2], NULL, 0);
            uint8_t *b = __real_malloc(len ? len : 1); memset(b, 0xEE, len);
            bail_armed = 1;
            if (sigsetjmp(bail, 1)) { in_lib = 0; bail_armed = 0; out("hang"); fflush(stdout); _exit(3); }
            ENTER(); uint32_t n = adfFileRead(fh[h], len, b); LEAVE(); bail_armed = 0;
            if (n > len) { out("err overrun n=%u", n); __real_free(b); continue; }
            printf("%d ok n=%u fnv=%08x pos=%u size=%u eof=%d", lineno, n, fnv32(b, n), adfFileGetPos(fh[h]), adfFileGetSize(fh[h]), adfEndOfFile(fh[h]));
            if (na > 3 && !strcmp(a[3], "hex")) { printf(" data="); for (uint32_t i = 0; i < n; i++) printf("%02x", b[i]); }
            putchar('\n');
            __real_free(b);
        }
        else if (!strcmp(c, "seek")) { int h = atoi(a[1]); if (!fh[h]) { out("err nohandle"); continue; }
            bail_armed = 1;
            if (sigsetjmp(bail, 1)) { in_lib = 0; bail_armed = 0; out("hang"); fflush(stdout); _exit(3); }
            ENTER(); RETCODE rc = adfFileSeek(fh[h], (uint32_t)strtoul(a[2], NULL, 0)); LEAVE(); bail_armed = 0;
            out(rc == RC_OK ? "ok pos=%u size=%u eof=%d" : "err pos=%u size=%u eof=%d", adfFileGetPos(fh[h]), adfFileGetSize(fh[h]), adfEndOfFile(fh[h])); }
        else if (!strcmp(c, "trunc")) { int h = atoi(a[1]); if (!fh[h]) { out("err nohandle"); continue; }
            ENTER(); RETCODE rc = adfFileTruncate(fh[h], (uint32_t)strtoul(a[2], NULL, 0)); LEAVE();
            out(rc == RC_OK ? "ok pos=%u size=%u eof=%d" : "err pos=%u size=%u eof=%d", adfFileGetPos(fh[h]), adfFileGetSize(fh[h]), adfEndOfFile(fh[h])); }
        else if (!strcmp(c, "stat")) { int h = atoi(a[1]); if (!fh[h]) { out("err nohandle"); continue; }
            out("ok pos=%u size=%u eof=%d", adfFileGetPos(fh[h]), adfFileGetSize(fh[h]), adfEndOfFile(fh[h])); }
        else if (!strcmp(c, "atrack")) { atrack_n = 0; out("ok"); }
        else if (!strcmp(c, "badblk")) { if (!strcmp(a[1], "clear")) badblk_n = 0; else if (badblk_n < BADBLK_MAX) badblk[badblk_n++] = (uint32_t)strtoul(a[1], NULL, 0); out("ok"); }
        else if (!strcmp(c, "hstate")) { /* hstate <h> : the fields of struct AdfFile the handle model (Model/FileIO.v) has, read directly */
            int h = atoi(a[1]); if (!fh[h]) { out("err nohandle"); continue; }
            struct AdfFile *f = fh[h];
            int o = isOFS(f->volume->dosType);
            const uint8_t *cd = (const uint8_t *)f->currentData;
            const struct bOFSDataBlock *od = (const struct bOFSDataBlock *)f->currentData;
            printf("%d ok pos=%u pinx=%u pind=%u ndb=%u cur=%d chg=%d size=%u high=%d first=%d ext=%d dfnv=%08x", lineno,
                   f->pos, f->posInExtBlk, f->posInDataBlk, f->nDataBlock, f->curDataPtr, f->currentDataBlockChanged ? 1 : 0,
                   f->fileHdr->byteSize, f->fileHdr->highSeq, f->fileHdr->firstData, f->fileHdr->extension,
                   o ? fnv32(cd + 24, 488) : fnv32(cd, 512));
            { uint32_t t = 2166136261u; for (int i = 0; i < 72; i++) t = (t ^ (uint32_t)f->fileHdr->dataBlocks[71 - i]) * 16777619u; printf(" htab=%08x", t); }
            if (o) printf(" dnext=%d dsize=%u dseq=%u dkey=%d", od->nextData, od->dataSize, od->seqNum, od->headerKey);
            if (f->currentExt) {
                uint32_t t = 2166136261u; for (int i = 0; i < 72; i++) t = (t ^ (uint32_t)f->currentExt->dataBlocks[71 - i]) * 16777619u;
                printf(" xkey=%d xpar=%d xhigh=%d xext=%d xtab=%08x", f->currentExt->headerKey, f->currentExt->parent, f->currentExt->highSeq, f->currentExt->extension, t);
            } else printf(" xkey=-1");
            putchar('\n');
        }
        else if (!strcmp(c, "fblks")) { /* fblks <h> : the header block of handle h (of the last handle shown when h is closed) and every block handed out
                                           since "atrack", read raw from the device and shown under each interpretation (OFS data header + payload
                                           digest, FFS payload digest, header / extension fields) */
            uint8_t b[512];
            static SECTNUM last_hdr = 0;
            { int h = atoi(a[1]); if (h >= 0 && h < NH && fh[h]) last_hdr = fh[h]->fileHdr->headerKey; }
            #define BEu(p_) (((uint32_t)(p_)[0] << 24) | ((p_)[1] << 16) | ((p_)[2] << 8) | (p_)[3])
            printf("%d ok", lineno);
            for (int i = -1; i < (atrack_n < 0 ? 0 : atrack_n); i++) {
                SECTNUM n = i < 0 ? last_hdr : atrack[i];
                if (adfReadBlock(vol, (uint32_t)n, b) != RC_OK) { printf(" %d:?", n); continue; }
                uint32_t t = 2166136261u; for (int k = 0; k < 72; k++) t = (t ^ BEu(b + 24 + 4 * (71 - k))) * 16777619u;
                printf(" %d:%u:%u:%u:%u:%u:%08x:%08x:%u:%u:%u:%08x", n, BEu(b), BEu(b + 4), BEu(b + 8), BEu(b + 12), BEu(b + 16),
                       fnv32(b + 24, 488), fnv32(b, 512), BEu(b + 324), BEu(b + 500), BEu(b + 504), t);
            }
            putchar('\n');
        }
        else if (!strcmp(c, "rdblk")) { /* rdblk <n> : adfReadBlock through the volume funnel */
            uint8_t b[512]; ENTER(); RETCODE rc = adfReadBlock(vol, (uint32_t)strtoul(a[1], NULL, 0), b); LEAVE();
            out(rc == RC_OK ? "ok fnv=%08x" : "err rc=%d", rc == RC_OK ? fnv32(b, 512) : (uint32_t)rc); }
        else if (!strcmp(c, "wrblk")) { /* wrblk <n> <fillbyte> */
            uint8_t b[512]; memset(b, atoi(a[2]), 512); ENTER(); RETCODE rc = adfWriteBlock(vol, (uint32_t)strtoul(a[1], NULL, 0), b); LEAVE();
            out(rc == RC_OK ? "ok" : "err rc=%d", rc); }
        else if (!strcmp(c, "alloc")) { /* alloc <n> : adfGetFreeBlocks */
            int n = atoi(a[1]); SECTNUM *l = __real_malloc(sizeof(SECTNUM) * (size_t)(n > 0 ? n : 1));
            ENTER(); BOOL r = __real_adfGetFreeBlocks(vol, n, l); LEAVE();
            printf("%d %s", lineno, r ? "ok" : "err"); if (r) for (int i = 0; i < n; i++) printf(" %d", l[i]); putchar('\n'); __real_free(l); }
        else if (!strcmp(c, "isfree")) { ENTER(); BOOL r = adfIsBlockFree(vol, atoi(a[1])); LEAVE(); out("ok %d", r ? 1 : 0); }
        else if (!strcmp(c, "setfree")) { ENTER(); adfSetBlockFree(vol, atoi(a[1])); LEAVE(); out("ok"); }
        else if (!strcmp(c, "setused")) { ENTER(); adfSetBlockUsed(vol, atoi(a[1])); LEAVE(); out("ok"); }
        else if (!strcmp(c, "updbitmap")) { ENTER(); RETCODE rc = adfUpdateBitmap(vol); LEAVE(); out(rc == RC_OK ? "ok" : "err rc=%d", rc); }
        else if (!strcmp(c, "end")) break;
        else out("err unknown-command %s", c);
    }
    alarm(0);
    fflush(stdout);
    if (wlog) fclose(wlog);
    if (alog) fclose(alog);
    return 0;
}

/*
 * leafh - calls ADFlib's leaf functions (compiled from /repo's working tree)
 * on inputs read from stdin, one call per line, and prints one result per line
 * in the same canonical form as the OCaml driver running the *generated*
 * Gallina (translation validation of tools/c2v.py, and failing-input search).
 *
 *   <fn> <int args...> [hex string]   ->   <fn> <args...> = <results...>
 */
#define _GNU_SOURCE
#include <stdint.h>
#include <stdio.h>
#include <stdlib.h>
#include <string.h>
#include <time.h>

#include "adflib.h"
#include "adf_bitm.h"
#include "adf_cache.h"
#include "adf_dev_hd.h"
#include "adf_file_block.h"
#include "adf_file_util.h"
#include "adf_nativ.h"
#include "adf_raw.h"
#include "hd_blk.h"

uint8_t adfToUpper(const uint8_t c);
uint32_t nBlock2bitmapSize(uint32_t nBlock);   /* static in adf_bitm.c, made global with objcopy */

static time_t pinned = 0;
time_t time(time_t *t) { if (t) *t = pinned; return pinned; }

static long dev_sector = -1; static unsigned dev_size = 0; static int dev_calls = 0;
static RETCODE nInit(struct AdfDevice *const d, const char *const n, const BOOL ro) { (void)d; (void)n; (void)ro; return RC_OK; }
static RETCODE nRel(struct AdfDevice *const d) { (void)d; return RC_OK; }
static RETCODE nRead(struct AdfDevice *const d, const uint32_t n, const unsigned size, uint8_t *const buf) {
    (void)d; dev_sector = n; dev_size = size; dev_calls++; memset(buf, 0, size); return RC_OK; }
static RETCODE nWrite(struct AdfDevice *const d, const uint32_t n, const unsigned size, const uint8_t *const buf) {
    (void)d; (void)buf; dev_sector = n; dev_size = size; dev_calls++; return RC_OK; }
static BOOL nIsNative(const char *const n) { (void)n; return TRUE; }
static void quiet(const char *const f, ...) { (void)f; }

static int hexval(int c) { return c >= '0' && c <= '9' ? c - '0' : c >= 'a' && c <= 'f' ? c - 'a' + 10 : c >= 'A' && c <= 'F' ? c - 'A' + 10 : 0; }
static size_t unhex(const char *s, uint8_t *b, size_t max) {
    size_t n = 0; if (!strcmp(s, "-")) { b[0] = 0; return 0; }
    while (s[0] && s[1] && n + 1 < max) { b[n++] = (uint8_t)(hexval(s[0]) * 16 + hexval(s[1])); s += 2; }
    b[n] = 0; return n;
}

int main(void) {
    setenv("TZ", "UTC", 1); tzset();
    adfEnvInitDefault();
    adfSetEnvFct(quiet, quiet, quiet, NULL);
    struct AdfNativeFunctions *nf = adfEnv.nativeFct;
    nf->adfInitDevice = nInit; nf->adfReleaseDevice = nRel; nf->adfNativeReadSector = nRead;
    nf->adfNativeWriteSector = nWrite; nf->adfIsDevNative = nIsNative;

    char line[8192];
    while (fgets(line, sizeof line, stdin)) {
        char *nl = strchr(line, '\n'); if (nl) *nl = 0;
        if (!line[0] || line[0] == '#') continue;
        char copy[8192]; strcpy(copy, line);
        char *a[32]; int na = 0;
        for (char *t = strtok(copy, " "); t && na < 32; t = strtok(NULL, " ")) a[na++] = t;
        const char *f = a[0];
        long long v[16]; for (int i = 1; i < na && i < 16; i++) v[i] = strtoll(a[i], NULL, 0);
        printf("%s =", line);
        if (!strcmp(f, "adfIsLeap")) printf(" %d", adfIsLeap((int)v[1]));
        else if (!strcmp(f, "adfDays2Date")) { int y, m, d; adfDays2Date((int32_t)v[1], &y, &m, &d); printf(" %d %d %d", y, m, d); }
        else if (!strcmp(f, "adfTime2AmigaTime")) { /* day hour min mon sec year (alphabetical, as the generated parameters) */
            struct DateTime dt = { .day = (int)v[1], .hour = (int)v[2], .min = (int)v[3], .mon = (int)v[4], .sec = (int)v[5], .year = (int)v[6] };
            int32_t d, mi, t; adfTime2AmigaTime(dt, &d, &mi, &t); printf(" %d %d %d", d, mi, t); }
        else if (!strcmp(f, "adfGiveCurrentTime")) { pinned = (time_t)v[1]; struct DateTime r = adfGiveCurrentTime();
            printf(" %d %d %d %d %d %d", r.year, r.mon, r.day, r.hour, r.min, r.sec); }
        else if (!strcmp(f, "adfToUpper")) printf(" %u", adfToUpper((uint8_t)v[1]));
        else if (!strcmp(f, "adfIntlToUpper")) printf(" %u", adfIntlToUpper((uint8_t)v[1]));
        else if (!strcmp(f, "adfGetHashValue")) { uint8_t b[1024]; unhex(a[2], b, sizeof b); printf(" %u", adfGetHashValue(b, (BOOL)v[1])); }
        else if (!strcmp(f, "adfPos2DataBlock")) { unsigned pe, pd, cn; int32_t r = adfPos2DataBlock((unsigned)v[1], (unsigned)v[2], &pe, &pd, &cn); printf(" %d %u %u %u", r, pe, pd, cn); }
        else if (!strcmp(f, "adfFilePos2datablockIndex")) printf(" %u", adfFilePos2datablockIndex((unsigned)v[1], (unsigned)v[2]));
        else if (!strcmp(f, "adfFileSize2Datablocks")) printf(" %u", adfFileSize2Datablocks((unsigned)v[1], (unsigned)v[2]));
        else if (!strcmp(f, "adfFileDatablocks2Extblocks")) printf(" %u", adfFileDatablocks2Extblocks((unsigned)v[1]));
        else if (!strcmp(f, "adfFileSize2Extblocks")) printf(" %u", adfFileSize2Extblocks((unsigned)v[1], (unsigned)v[2]));
        else if (!strcmp(f, "adfFileSize2Blocks")) printf(" %u", adfFileSize2Blocks((unsigned)v[1], (unsigned)v[2]));
        else if (!strcmp(f, "adfFileRealSize")) { int32_t dn = 0, en = 0; uint32_t r = adfFileRealSize((uint32_t)v[1], (unsigned)v[2], &dn, &en); printf(" %u %d %d", r, dn, en); }
        else if (!strcmp(f, "nBlock2bitmapSize")) printf(" %u", nBlock2bitmapSize((uint32_t)v[1]));
        else if (!strcmp(f, "isSectNumValid")) { struct AdfVolume vol; memset(&vol, 0, sizeof vol); vol.firstBlock = (SECTNUM)v[1]; vol.lastBlock = (SECTNUM)v[2]; printf(" %d", isSectNumValid(&vol, (SECTNUM)v[3]) ? 1 : 0); }
        else if (!strcmp(f, "adfDevType")) { struct AdfDevice d; memset(&d, 0, sizeof d); d.size = (uint32_t)v[1]; printf(" %d", adfDevType(&d)); }
        else if (!strcmp(f, "adfNormalSum") || !strcmp(f, "adfBootSum")) { /* <offset> <len> <hex> | <hex> */
            static uint8_t b[2048]; memset(b, 0, sizeof b);
            if (f[3] == 'N') { unhex(a[3], b, sizeof b); printf(" %u", adfNormalSum(b, (int)v[1], (int)v[2])); }
            else { unhex(a[1], b, sizeof b); printf(" %u", adfBootSum(b)); } }
        else if (!strcmp(f, "adfPutCacheEntry")) { /* p header size protect days mins ticks type hexname hexcomm hexrecords(488) */
            struct bDirCacheBlock dc; memset(&dc, 0, sizeof dc); struct AdfCacheEntry e; memset(&e, 0, sizeof e);
            int p = (int)v[1]; e.header = (uint32_t)v[2]; e.size = (uint32_t)v[3]; e.protect = (uint32_t)v[4];
            e.days = (uint16_t)v[5]; e.mins = (uint16_t)v[6]; e.ticks = (uint16_t)v[7]; e.type = (signed char)v[8];
            e.nLen = (uint8_t)(strcmp(a[9], "-") ? unhex(a[9], (uint8_t *)e.name, sizeof e.name) : 0);
            e.cLen = (uint8_t)(strcmp(a[10], "-") ? unhex(a[10], (uint8_t *)e.comm, sizeof e.comm) : 0);
            { static uint8_t tmp[1200]; memset(tmp, 0, sizeof tmp); unhex(a[11], tmp, sizeof tmp); memcpy(dc.records, tmp, sizeof dc.records); }
            int r = adfPutCacheEntry(&dc, &p, &e);
            printf(" %d ", r); for (unsigned i = 0; i < sizeof dc.records; i++) printf("%02x", dc.records[i]); }
        else if (!strcmp(f, "adfGetCacheEntry")) { /* p hexrecords(488) */
            struct bDirCacheBlock dc; memset(&dc, 0, sizeof dc); struct AdfCacheEntry e; memset(&e, 0, sizeof e);
            int p = (int)v[1]; { static uint8_t tmp[1200]; memset(tmp, 0, sizeof tmp); unhex(a[2], tmp, sizeof tmp); memcpy(dc.records, tmp, sizeof dc.records); }
            RETCODE rc = adfGetCacheEntry(&dc, &p, &e);
            printf(" %d %d %u %u %u %u %u %u %d %u ", rc, p, e.header, e.size, e.protect, e.days, e.mins, e.ticks, e.type, e.nLen);
            for (unsigned i = 0; i < sizeof e.name; i++) printf("%02x", (uint8_t)e.name[i]);
            printf(" %u ", e.cLen);
            for (unsigned i = 0; i < sizeof e.comm; i++) printf("%02x", (uint8_t)e.comm[i]); }
        else if (!strcmp(f, "adfReadBlock") || !strcmp(f, "adfWriteBlock")) { /* nSect first last mounted [readOnly] */
            struct AdfDevice d; memset(&d, 0, sizeof d); d.isNativeDev = TRUE;
            struct AdfVolume vol; memset(&vol, 0, sizeof vol); vol.dev = &d; vol.volName = "x";
            vol.firstBlock = (SECTNUM)v[2]; vol.lastBlock = (SECTNUM)v[3]; vol.mounted = (BOOL)v[4];
            uint8_t b[512]; memset(b, 0, sizeof b); dev_calls = 0; dev_sector = -1; RETCODE rc;
            if (f[3] == 'R') rc = adfReadBlock(&vol, (uint32_t)v[1], b);
            else { vol.readOnly = (BOOL)v[5]; rc = adfWriteBlock(&vol, (uint32_t)v[1], b); }
            if (dev_calls) printf(" dev %ld %u", dev_sector, dev_size); else printf(" ret %d", rc); }
        else if (!strncmp(f, "adfWrite", 8) && strstr(f, "block")) { /* HD writers: readOnly nSect */
            struct AdfDevice d; memset(&d, 0, sizeof d); d.isNativeDev = TRUE; d.readOnly = (BOOL)v[1];
            dev_calls = 0; dev_sector = -1; RETCODE rc = RC_OK;
            if (!strcmp(f, "adfWriteRDSKblock")) { struct bRDSKblock b; memset(&b, 0, sizeof b); rc = adfWriteRDSKblock(&d, &b); }
            else if (!strcmp(f, "adfWritePARTblock")) { struct bPARTblock b; memset(&b, 0, sizeof b); rc = adfWritePARTblock(&d, (int32_t)v[2], &b); }
            else if (!strcmp(f, "adfWriteFSHDblock")) { struct bFSHDblock b; memset(&b, 0, sizeof b); rc = adfWriteFSHDblock(&d, (int32_t)v[2], &b); }
            else if (!strcmp(f, "adfWriteLSEGblock")) { struct bLSEGblock b; memset(&b, 0, sizeof b); rc = adfWriteLSEGblock(&d, (int32_t)v[2], &b); }
            if (dev_calls) printf(" dev %ld %u", dev_sector, dev_size); else printf(" ret %d", rc); }
        else if (!strcmp(f, "bitidx")) { /* bitidx <op:free|used|isfree> <nSect> <pages> : which (page, word, mask) is touched */
            unsigned pages = (unsigned)v[3]; struct AdfVolume vol; memset(&vol, 0, sizeof vol);
            vol.bitmapSize = pages; vol.bitmapTable = calloc(pages, sizeof(void *)); vol.bitmapBlocksChg = calloc(pages, sizeof(BOOL));
            vol.firstBlock = 0; vol.lastBlock = (SECTNUM)(pages * 127 * 32 + 1);   /* the volume these pages describe */
            for (unsigned i = 0; i < pages; i++) { vol.bitmapTable[i] = malloc(512); memset(vol.bitmapTable[i], !strcmp(a[1], "free") ? 0 : 0xff, 512); }
            long hitp = -1, hitw = -1; uint32_t hitm = 0; int res = -1;
            if (!strcmp(a[1], "free")) adfSetBlockFree(&vol, (SECTNUM)v[2]);
            else if (!strcmp(a[1], "used")) adfSetBlockUsed(&vol, (SECTNUM)v[2]);
            else { /* isfree: set exactly the expected bit via SetBlockFree on a zero map then query */
                for (unsigned i = 0; i < pages; i++) memset(vol.bitmapTable[i], 0, 512);
                adfSetBlockFree(&vol, (SECTNUM)v[2]); res = adfIsBlockFree(&vol, (SECTNUM)v[2]) ? 1 : 0; }
            uint32_t bg = !strcmp(a[1], "used") ? 0xffffffffu : 0;
            for (unsigned i = 0; i < pages; i++) for (int w = 0; w < 127; w++) if (vol.bitmapTable[i]->map[w] != bg) { hitp = i; hitw = w; hitm = vol.bitmapTable[i]->map[w] ^ bg; }
            printf(" %ld %ld %u %d", hitp, hitw, hitm, res);
            for (unsigned i = 0; i < pages; i++) free(vol.bitmapTable[i]); free(vol.bitmapTable); free(vol.bitmapBlocksChg); }
        else if (!strcmp(f, "output_name")) { /* output_name <dirhex|-> <pathhex|-> <namehex|-> */
            extern char *extract_dir; extern BOOL pipe_mode; extern char *output_name(char *path, char *name);
            static uint8_t d[600], pa[600], nm[600];
            pipe_mode = TRUE;            /* no directories are created */
            unhex(a[1], d, sizeof d); unhex(a[2], pa, sizeof pa); unhex(a[3], nm, sizeof nm);
            extract_dir = strcmp(a[1], "-") ? (char *)d : NULL;
            char *o = output_name((char *)pa, (char *)nm);
            putchar(' '); if (!*o) putchar('-'); for (char *q = o; *q; q++) printf("%02x", (uint8_t)*q);
            free(o); }
        else printf(" unknown");
        putchar('\n');
    }
    return 0;
}
